"""Obligations, findings, known-finding matching, evidence + replay files, exit protocol."""
from __future__ import annotations

import json
import os
import sys
import time
from typing import Any, Dict, List, Optional

VERIF = os.path.dirname(os.path.dirname(os.path.abspath(__file__)))

DISCHARGED = 'discharged'
VIOLATED = 'violated'
UNDECIDED = 'undecided'
EXCLUDED = 'excluded'


class Obligation:
    def __init__(self, rule, key, status, where, facts, why):
        self.rule = rule
        self.key = key
        self.status = status
        self.where = where
        self.facts = facts
        self.why = why

    def as_dict(self):
        d = {'rule': self.rule, 'instance': self.key, 'status': self.status, 'where': self.where}
        if self.facts is not None:
            d['facts'] = self.facts
        if self.why:
            d['why'] = self.why
        return d


class Report:
    def __init__(self, prop: str, tier: str, repo: str, out_dir: Optional[str] = None):
        self.prop = prop
        self.tier = tier
        self.repo = repo
        self.t0 = time.time()
        self.obs: List[Obligation] = []
        self.forced_incomplete: list = []
        self.assumptions: List[str] = []
        self.rules: Dict[str, str] = {}
        self.notes: List[str] = []
        self.explanation = ''
        self.not_decided: List[str] = []
        self.extra: Dict[str, Any] = {}
        self.out_dir = out_dir or VERIF
        self.analysed: Dict[str, Any] = {}

    # ------------------------------------------------------------------
    def rule(self, rule: str, text: str):
        self.rules[rule] = text

    def add(self, rule, key, status, where='', facts=None, why=''):
        self.obs.append(Obligation(rule, key, status, where, facts, why))

    def ok(self, rule, key, where='', facts=None):
        self.add(rule, key, DISCHARGED, where, facts)

    def bad(self, rule, key, where='', facts=None, why=''):
        self.add(rule, key, VIOLATED, where, facts, why)

    def undecided(self, rule, key, where='', why='', facts=None):
        self.add(rule, key, UNDECIDED, where, facts, why)

    def incomplete(self, rule, key, where='', why=''):
        """an instance that must be decided for the verdict to mean anything (e.g. an un-audited new implementation): reported as undecided and the run ends as ANALYSIS-INCOMPLETE"""
        self.add(rule, key, UNDECIDED, where, None, why)
        self.forced_incomplete.append((rule, key, why))

    def excluded(self, rule, key, where='', why=''):
        self.add(rule, key, EXCLUDED, where, None, why)

    def check(self, rule, key, cond: bool, where='', facts=None, why=''):
        if cond:
            self.ok(rule, key, where, facts)
        else:
            self.bad(rule, key, where, facts, why)
        return cond

    # ------------------------------------------------------------------
    def _load_known(self):
        path = os.path.join(VERIF, 'known_findings.json')
        if not os.path.exists(path):
            return []
        with open(path) as fh:
            return json.load(fh).get('findings', [])

    def _load_baseline(self):
        path = os.path.join(VERIF, 'baseline', 'instances.json')
        if not os.path.exists(path):
            return {}
        with open(path) as fh:
            return json.load(fh).get(self.prop, {})

    def finish(self, write_evidence=True) -> int:
        known = [k for k in self._load_known() if k.get('property') == self.prop]
        known_active = {(k['rule'], k['key']): k for k in known if k.get('status') == 'known'}
        baseline = self._load_baseline()
        violations = []
        known_hits = []
        incomplete = list(getattr(self, 'forced_incomplete', []))
        decided_keys: Dict[str, set] = {}
        for o in self.obs:
            if o.status in (DISCHARGED, VIOLATED):
                decided_keys.setdefault(o.rule, set()).add(o.key)
            if o.status == VIOLATED:
                k = known_active.get((o.rule, o.key))
                if k is not None:
                    known_hits.append((o, k))
                else:
                    violations.append(o)
        for rule, spec in baseline.items():
            got = decided_keys.get(rule, set())
            if isinstance(spec, dict):
                if len(got) < spec.get('min', 0):
                    incomplete.append((rule, '*', f"only {len(got)} instances decided, floor is {spec['min']}"))
                keys = spec.get('keys', [])
            else:
                keys = spec
            for key in keys:
                if key not in got:
                    und = [o for o in self.obs if o.rule == rule and o.key == key and o.status == UNDECIDED]
                    why = und[0].why if und else 'baseline instance no longer found/decided'
                    incomplete.append((rule, key, why))
        # an obligation the analysis could not decide never passes silently: the run is incomplete (exit 2) whatever the floors say
        already = {(r, k) for r, k, _ in incomplete}
        for o in self.obs:
            if o.status == UNDECIDED and (o.rule, o.key) not in already:
                incomplete.append((o.rule, o.key, o.why or 'undecided'))
        # print
        by_rule: Dict[str, Dict[str, int]] = {}
        for o in self.obs:
            by_rule.setdefault(o.rule, {}).setdefault(o.status, 0)
            by_rule[o.rule][o.status] += 1
        for rule in sorted(by_rule):
            c = by_rule[rule]
            print(
                f"[{self.prop}] {rule}: "
                + ' '.join(f"{k}={v}" for k, v in sorted(c.items()))
                + (f"  -- {self.rules[rule]}" if rule in self.rules else '')
            )
        replay_dir = os.path.join(self.out_dir, 'evidence', 'replay')
        os.makedirs(replay_dir, exist_ok=True)
        # remove stale replay files of this property
        for fn in os.listdir(replay_dir):
            if fn.startswith(self.prop + '-'):
                try:
                    os.remove(os.path.join(replay_dir, fn))
                except OSError:
                    pass
        for o, k in known_hits:
            print(f"KNOWN-FINDING: property={self.prop} rule={o.rule} instance={o.key} {k.get('what', '')}")
        for rule, key, why in incomplete:
            print(f"ANALYSIS-INCOMPLETE property={self.prop} rule={rule} instance={key} why={why}")
        for i, o in enumerate(violations):
            path = os.path.join(replay_dir, f"{self.prop}-{i}.json")
            with open(path, 'w') as fh:
                json.dump(
                    {
                        'property': self.prop,
                        'rule': o.rule,
                        'rule_text': self.rules.get(o.rule, ''),
                        'instance': o.key,
                        'where': o.where,
                        'facts': o.facts,
                        'why': o.why,
                        'repo': self.repo,
                    },
                    fh,
                    indent=1,
                    default=str,
                )
            print(f"  {o.where}: [{o.rule}] {o.key}: {o.why}")
            print(f"VIOLATION property={self.prop} replay={path}")
        n_ob = sum(1 for o in self.obs if o.status in (DISCHARGED, VIOLATED))
        n_dis = sum(1 for o in self.obs if o.status == DISCHARGED)
        code = 1 if violations else (2 if incomplete else 0)
        if write_evidence:
            self._write_evidence(n_ob, n_dis, violations, known_hits, incomplete, by_rule)
        print(
            f"[{self.prop}] obligations={n_ob} discharged={n_dis} violated={len(violations)} "
            f"known={len(known_hits)} undecided={sum(1 for o in self.obs if o.status == UNDECIDED)} "
            f"exit={code}"
        )
        return code

    def _write_evidence(self, n_ob, n_dis, violations, known_hits, incomplete, by_rule):
        samples = []
        seen_rules: Dict[str, int] = {}
        for o in self.obs:
            if o.status == VIOLATED or seen_rules.get(o.rule, 0) < 3:
                seen_rules[o.rule] = seen_rules.get(o.rule, 0) + 1
                samples.append(o.as_dict())
        distinct = len({(o.rule, o.key) for o in self.obs if o.status in (DISCHARGED, VIOLATED)})
        ev = {
            'property_id': self.prop,
            'tier': self.tier,
            'seed': int(os.environ.get('VERIF_SEED', '0') or 0),
            'level': 'other',
            'coverage': {
                'explanation': self.explanation,
                'obligations': n_ob,
                'discharged': n_dis,
                'evaluations': max(n_ob, 0),
                'distinct_nontrivial': distinct,
                'rule': 'one obligation per (rule, instance) pair extracted from the parsed source; '
                'distinct = distinct (rule, instance) keys',
                'rules': self.rules,
                'per_rule': by_rule,
                'samples': samples[:60],
                'undecided': [o.as_dict() for o in self.obs if o.status == UNDECIDED][:40],
                'excluded': [o.as_dict() for o in self.obs if o.status == EXCLUDED][:40],
                'known_findings_hit': [
                    {'rule': o.rule, 'instance': o.key, 'what': k.get('what', '')} for o, k in known_hits
                ],
                'incomplete': [{'rule': r, 'instance': k, 'why': w} for r, k, w in incomplete],
                'not_decided': self.not_decided,
                'analysed': self.analysed,
                'exhaustive': False,
                'checker_cmd': f"/venv/bin/python check.py {self.prop} --tier {self.tier}",
                'trusted_base': self.assumptions,
            },
            'assumptions': self.assumptions,
            'wall_s': round(time.time() - self.t0, 3),
            'violations': len(violations),
        }
        ev['coverage'].update(self.extra)
        d = os.path.join(self.out_dir, 'evidence')
        os.makedirs(d, exist_ok=True)
        with open(os.path.join(d, f"{self.prop}.json"), 'w') as fh:
            json.dump(ev, fh, indent=1, default=str)


def where(module, node) -> str:
    return f"{module.relpath}:{getattr(node, 'lineno', 0)}"


class RuleProxy:
    """presents a Report to a check of another property: every obligation is filed under `rule` with a key prefix"""

    def __init__(self, rep, rule, prefix=''):
        self._rep, self._rule, self._prefix = rep, rule, prefix

    def __getattr__(self, name):
        return getattr(self._rep, name)

    def rule(self, *a, **k):
        return None

    def check(self, rule, key, cond, *a, **k):
        return self._rep.check(self._rule, self._prefix + key, cond, *a, **k)

    def bad(self, rule, key, *a, **k):
        return self._rep.bad(self._rule, self._prefix + key, *a, **k)

    def ok(self, rule, key, *a, **k):
        return self._rep.ok(self._rule, self._prefix + key, *a, **k)

    def undecided(self, rule, key, *a, **k):
        return self._rep.undecided(self._rule, self._prefix + key, *a, **k)

    def excluded(self, rule, key, *a, **k):
        return self._rep.excluded(self._rule, self._prefix + key, *a, **k)

    def incomplete(self, rule, key, *a, **k):
        return self._rep.incomplete(self._rule, self._prefix + key, *a, **k)
