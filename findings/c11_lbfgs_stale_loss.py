"""C11.O: Optimizer._run_closure evaluates self.loss() right after the in-place LBFGS step without notifying:
the reported loss is the cached value of the last closure evaluation, not the loss at the current parameters."""
import io, contextlib, torch
from torchtree.core.parameter import Parameter
from torchtree.core.model import CallableModel
from torchtree.optim.optimizer import Optimizer
class Quad(CallableModel):
    def __init__(self, i, x): super().__init__(i); self.x = x
    def _call(self, *a, **k): return -((self.x.tensor - 3.0) ** 4).sum()
    def _sample_shape(self): return torch.Size([])
    @classmethod
    def from_json(cls, d, dic): ...
x = Parameter('x', torch.tensor([0.0]))
loss = Quad('l', x)
opt = Optimizer('o', [x], loss, torch.optim.LBFGS([x.tensor], max_iter=1), 2, checkpoint=None)
x.tensor.requires_grad_(True)
buf = io.StringIO()
with contextlib.redirect_stdout(buf):
    opt.run()
reported = float(buf.getvalue().strip().splitlines()[-1].split()[1])
true = -((x.tensor.detach() - 3.0) ** 4).sum().item()
print('reported', reported, 'true', round(true, 5))
ok = abs(reported - true) < 1e-4
print('OK' if ok else 'FAIL: reported loss is stale')
raise SystemExit(0 if ok else 1)
