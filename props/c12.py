"""C12 — gradients are the derivatives of the reported densities.

Decided clause: no graph-cutting construct lies on a differentiable path.  Every method of the
model / distribution / transform / parameter classes (construction, parsing and sampling
methods excluded) and the likelihood kernels are scanned for constructs that cut the autograd
graph; each is classified as shape-derived, literal, index-only, allow-listed-with-reason, or
a violation.
"""
from __future__ import annotations

import ast
from typing import Dict, List, Optional, Set

from sa.loader import AnalysisError, dotted_name, norm_text
from sa.members import self_attr
from sa.report import where
from sa.util import backward_slice, local_assignments

SKIP_METHODS = {'from_json', 'json_factory', '__init__', '__repr__', '__str__', '__eq__', 'rsample', 'sample', 'maximum_likelihood',
                'sufficient_statistics', 'to', 'cuda', 'cpu', 'state_dict', 'load_state_dict', 'update_bounds', 'sort_indices', 'update_traversals',
                'update_leaf_heights', 'parameters', 'clone', 'detach', 'copy_', '__getitem__', 'size', 'setup_indexes', 'initialize', 'log', 'close'}
SKIP_PACKAGES = ('.cli.', '.inference.', '.optim.', 'torchtree.core.logger', 'torchtree.core.utils', 'torchtree.nf.', 'torchtree.evolution.io',
                 'torchtree.evolution.alignment', 'torchtree.evolution.site_pattern', 'torchtree.evolution.attribute_pattern', 'torchtree.evolution.datatype',
                 'torchtree.evolution.taxa', 'torchtree.evolution.tree_regression')
KERNEL_MODULES = ('torchtree.evolution.tree_likelihood', 'torchtree.ops.smooth')
KERNEL_FUNCTIONS = {('torchtree.evolution.tree_model', 'heights_to_branch_lengths')}

# estimators that are *defined* with stop-gradients, and data that is not a parameter: frozen, one reason each
ALLOW = {
    ('torchtree.variational.kl.ELBO._call', 'no_grad'): "score-function (REINFORCE) estimator: the cost multiplying ∇log q is a constant by definition",
    ('torchtree.variational.kl.KLpqImportance._call', 'no_grad'): "self-normalised importance weights of the inclusive-KL estimator are constants by definition",
    ('torchtree.variational.kl.KLpqImportance._call', '.detach'): "self-normalised importance weights of the inclusive-KL estimator are constants by definition",
    ('torchtree.evolution.coalescent.PiecewiseLinearCoalescentGrid.log_prob', 'no_grad'): "torch.unique of the tip heights (sampling dates are data, not parameters; unique has no derivative)",
    ('torchtree.evolution.coalescent.SoftPiecewiseConstantCoalescentGrid.log_prob', 'no_grad'): "torch.unique of the tip heights (sampling dates are data, not parameters)",
}


def method_name(call: ast.Call) -> str:
    return (dotted_name(call.func) or (call.func.attr if isinstance(call.func, ast.Attribute) else '')).split('.')[-1]


def shape_derived(e: ast.AST, defs, depth=0) -> bool:
    """every leaf of e is a constant, a shape/len/dim of something, or a name defined that way."""
    if isinstance(e, ast.Constant):
        return True
    if isinstance(e, ast.Attribute) and e.attr in ('shape', 'ndim', 'state_count', 'taxa_count', 'dtype', 'device'):
        return True
    if isinstance(e, ast.Subscript):
        return shape_derived(e.value, defs, depth)
    if isinstance(e, ast.Call):
        nm = method_name(e)
        if nm in ('len', 'dim', 'size', 'numel'):
            return True
        if nm in ('int', 'float', 'sqrt', 'max', 'min', 'range', 'Size', 'floor', 'ceil', 'log', 'rsplit', 'split'):
            args = list(e.args)
            if isinstance(e.func, ast.Attribute) and not (isinstance(e.func.value, ast.Name) and e.func.value.id in ('math', 'torch', 'numpy', 'np')):
                args.append(e.func.value)
            return all(shape_derived(a, defs, depth) for a in args)
        return False
    if isinstance(e, ast.BinOp):
        return shape_derived(e.left, defs, depth) and shape_derived(e.right, defs, depth)
    if isinstance(e, ast.UnaryOp):
        return shape_derived(e.operand, defs, depth)
    if isinstance(e, (ast.Tuple, ast.List)):
        return all(shape_derived(x, defs, depth) for x in e.elts)
    if isinstance(e, ast.Name):
        if depth > 4:
            return False
        vals = defs.get(e.id)
        if vals:
            return all(shape_derived(v, defs, depth + 1) for v in vals)
        return e.id in ('math', 'torch')
    return False


def literal_only(e: ast.AST) -> bool:
    return not any(isinstance(n, (ast.Name, ast.Attribute, ast.Call)) for n in ast.walk(e) if not (isinstance(n, ast.Attribute) and isinstance(n.value, ast.Name) and n.value.id == 'torch'))


def index_only(call: ast.AST, fn: ast.FunctionDef) -> bool:
    """the detached value is used only as an index / in a comparison"""
    st = call
    while not isinstance(st, ast.stmt):
        st = st._parent
    if isinstance(st, ast.Assign) and len(st.targets) == 1 and isinstance(st.targets[0], ast.Name):
        name = st.targets[0].id
        uses = [n for n in ast.walk(fn) if isinstance(n, ast.Name) and n.id == name and isinstance(n.ctx, ast.Load)]
        if not uses:
            return True
        for u in uses:
            p = getattr(u, '_parent', None)
            ok = False
            while p is not None and not isinstance(p, ast.stmt):
                if isinstance(p, ast.Subscript) and any(x is u for x in ast.walk(p.slice)):
                    ok = True
                if isinstance(p, ast.Compare):
                    ok = True
                if isinstance(p, ast.Call) and method_name(p) in ('range', 'gather', 'index_select', 'tensor_split', 'split', 'expand', 'reshape', 'view', 'repeat'):
                    ok = True
                p = getattr(p, '_parent', None)
            if not ok:
                return False
        return True
    # used inline: parent is a subscript slice / comparison?
    p = getattr(call, '_parent', None)
    while p is not None and not isinstance(p, ast.stmt):
        if isinstance(p, ast.Subscript) and any(x is call for x in ast.walk(p.slice)):
            return True
        if isinstance(p, ast.Compare):
            return True
        p = getattr(p, '_parent', None)
    return False


def used_as_branch_test(call: ast.AST) -> bool:
    p, child = getattr(call, '_parent', None), call
    while isinstance(p, (ast.BoolOp, ast.UnaryOp, ast.Compare)):
        child, p = p, getattr(p, '_parent', None)
    return isinstance(p, (ast.If, ast.IfExp, ast.While)) and p.test is child


def constructs(fn: ast.FunctionDef):
    """(node, kind, text) for every graph-cutting construct directly in fn (nested defs included)."""
    out = []
    for n in ast.walk(fn):
        if isinstance(n, ast.Call):
            f = n.func
            nm = method_name(n)
            dn = dotted_name(f) or ''
            if isinstance(f, ast.Attribute) and f.attr in ('detach', 'item', 'tolist', 'numpy') and not n.args:
                out.append((n, '.' + f.attr, ast.unparse(n)))
            elif nm in ('jacobian', 'hessian', 'vjp', 'jvp') and not isinstance(f, ast.Attribute) or dn.endswith('functional.jacobian') or dn.endswith('functional.hessian'):
                out.append((n, 'autograd.' + nm, ast.unparse(n)))
            elif dn in ('torch.tensor', 'torch.as_tensor', 'torch.Tensor', 'torch.from_numpy'):
                out.append((n, 'torch.tensor', ast.unparse(n)))
            elif isinstance(f, ast.Name) and f.id in ('float', 'int') and n.args and not isinstance(n.args[0], ast.Constant):
                out.append((n, f.id + '()', ast.unparse(n)))
            elif nm in ('round', 'floor', 'ceil', 'trunc', 'sign', 'heaviside', 'frac_') and isinstance(f, ast.Attribute) and not (isinstance(f.value, ast.Name) and f.value.id in ('math', 'np', 'numpy')):
                out.append((n, 'zero-derivative', ast.unparse(n)))
            elif nm in ('histc', 'histogram', 'histogramdd') or (nm == 'bincount' and (any(k.arg == 'weights' for k in n.keywords) or
                                                                                   len(n.args) >= (3 if (dotted_name(f) or '').startswith('torch.') else 2))):
                out.append((n, 'no-derivative', ast.unparse(n)))
            elif nm in ('any', 'all') and used_as_branch_test(n) and any(
                    isinstance(x, ast.Compare) and len(x.ops) == 1 and isinstance(x.ops[0], (ast.Eq, ast.NotEq)) and any(
                        isinstance(y, ast.Constant) and isinstance(y.value, (int, float)) and not isinstance(y.value, bool) for y in [x.left] + x.comparators)
                    for x in ast.walk(n)):
                out.append((n, 'value-branch', ast.unparse(n)))
            elif nm in ('eigh', 'eigvalsh') and n.args and isinstance(n.args[0], ast.Call) and method_name(n.args[0]) in ('tril', 'triu'):
                out.append((n, 'eigh-of-a-triangle', ast.unparse(n)))
            elif nm in ('register_hook', 'register_full_backward_hook', 'register_backward_hook'):
                out.append((n, 'gradient-hook', ast.unparse(n)))
            elif nm == 'requires_grad_' and n.args and isinstance(n.args[0], ast.Constant) and n.args[0].value is False:
                out.append((n, 'requires_grad_(False)', ast.unparse(n)))
            elif nm == 'set_grad_enabled' and n.args and isinstance(n.args[0], ast.Constant) and n.args[0].value is False:
                out.append((n, 'no_grad', ast.unparse(n)))
            elif dn in ('torch.linspace', 'torch.logspace', 'torch.arange', 'torch.full') and n.args:
                # these factories read their start / end / step / fill value as Python numbers: a 0-dim tensor passed there is converted silently and leaves the graph
                scal = list(n.args[:3]) if dn != 'torch.full' else list(n.args[1:2]) + [k.value for k in n.keywords if k.arg == 'fill_value']
                for a in scal:
                    if not isinstance(a, ast.Constant) and not (isinstance(a, ast.UnaryOp) and isinstance(a.operand, ast.Constant)):
                        out.append((a, 'factory-scalar', ast.unparse(n)))
        elif isinstance(n, ast.Attribute) and n.attr == 'data' and isinstance(n.ctx, ast.Load) and not (isinstance(n.value, ast.Name) and n.value.id == 'self'):
            out.append((n, '.data', ast.unparse(n)))
        elif isinstance(n, ast.With) and any('no_grad' in ast.unparse(i.context_expr) for i in n.items):
            out.append((n, 'no_grad', ast.unparse(n.body[0]) if n.body else ''))
    return out


def may_be_tensor(e, fn, ci, depth=0) -> bool:
    """the value can be a tensor that carries a graph: reads `.tensor`, a property returning one, an attribute set from a tensor / parameter argument"""
    if depth > 5 or e is None:
        return False
    if isinstance(e, ast.Constant):
        return False
    if isinstance(e, ast.Attribute):
        if e.attr == 'tensor':
            return True
        if e.attr in ('shape', 'dtype', 'device', 'ndim'):
            return False
        a = self_attr(e)
        if a and ci is not None:
            g = ci.resolve(a, 'getter')
            if g is not None:
                return any(may_be_tensor(r.value, g[1], g[0], depth + 1) for r in ast.walk(g[1]) if isinstance(r, ast.Return) and r.value is not None)
            init = ci.resolve('__init__')
            if init is not None:
                ann = {x.arg: (ast.unparse(x.annotation) if x.annotation is not None else '') for x in init[1].args.args + init[1].args.kwonlyargs}
                for st in ast.walk(init[1]):
                    if isinstance(st, ast.Assign) and any(self_attr(t) == a for t in st.targets):
                        v = st.value
                        if isinstance(v, ast.Name) and v.id in ann:
                            if any(k in ann[v.id] for k in ('Tensor', 'Parameter')):
                                return True
                        elif may_be_tensor(v, init[1], init[0], depth + 1):
                            return True
        return False
    if isinstance(e, ast.Name):
        for x in fn.args.args + fn.args.kwonlyargs:
            if x.arg == e.id:
                return x.annotation is not None and any(k in ast.unparse(x.annotation) for k in ('Tensor', 'Parameter'))
        for st in ast.walk(fn):
            if isinstance(st, ast.Assign) and any(isinstance(t, ast.Name) and t.id == e.id for t in st.targets):
                if may_be_tensor(st.value, fn, ci, depth + 1):
                    return True
        return False
    if isinstance(e, ast.BinOp):
        return may_be_tensor(e.left, fn, ci, depth + 1) or may_be_tensor(e.right, fn, ci, depth + 1)
    if isinstance(e, ast.UnaryOp):
        return may_be_tensor(e.operand, fn, ci, depth + 1)
    if isinstance(e, ast.IfExp):
        return may_be_tensor(e.body, fn, ci, depth + 1) or may_be_tensor(e.orelse, fn, ci, depth + 1)
    if isinstance(e, ast.Subscript):
        return may_be_tensor(e.value, fn, ci, depth + 1)
    if isinstance(e, ast.Call):
        dn = dotted_name(e.func) or ''
        if dn.startswith('torch.') and not dn.startswith('torch.Size'):
            return True
        if isinstance(e.func, ast.Attribute) and e.func.attr in ('sum', 'log', 'exp', 'mean', 'expand', 'view', 'reshape', 'clone'):
            return may_be_tensor(e.func.value, fn, ci, depth + 1)
    return False


def check_math_on_tensors(ctx, rep, targets_with_cls):
    """C12.D — math.log / math.lgamma … of a tensor silently converts it to a Python float: the value tracks the parameter, the gradient through it is lost"""
    n = 0
    for m, qual, fn, ci in targets_with_cls:
        for c in ast.walk(fn):
            if isinstance(c, ast.Call) and isinstance(c.func, ast.Attribute) and isinstance(c.func.value, ast.Name) and c.func.value.id == 'math' and c.args:
                n += 1
                bad = [ast.unparse(a)[:40] for a in c.args if may_be_tensor(a, fn, ci)]
                rep.check('C12.D', f"{qual}::math()::{norm_text(c)[:60]}", not bad, where(m, c), {'tensor_arguments': bad},
                          f"{qual}: `{norm_text(c)[:60]}` applies a Python math function to {bad}, which can be a parameter's tensor: it is converted to a float, so the "
                          f"returned value follows the parameter but the gradient with respect to it loses this term")
    rep.analysed['math_calls'] = n


def check_requires_grad_setters(ctx, rep):
    """C12.G — switching requires_grad on after a first evaluation (what Optimizer does) must invalidate the caches that hold graph-less tensors"""
    from props import c11
    from sa.members import PARAM_BASE
    n = 0
    for cls in sorted(ctx.classes.subclasses(PARAM_BASE), key=lambda c: c.qualname):
        if cls.is_abstract():
            continue
        r = cls.resolve('requires_grad', 'setter')
        if r is None:
            continue
        defcls, fn = r
        if not any(isinstance(x, ast.Assign) for x in ast.walk(fn)):
            continue
        n += 1
        ok, facts = c11.notifies(cls, fn)
        rep.check('C12.G', f"{cls.qualname}::requires_grad.setter-notifies", ok, where(defcls.module, fn), facts,
                  f"{defcls.name}.requires_grad setter changes whether the tensor records a graph without notifying the listeners: derived parameters and models that were "
                  f"evaluated before keep tensors without a graph, so the next backward() gives no gradient for this parameter (value right, gradient missing)")
    if n < 3:
        raise AnalysisError(f"only {n} requires_grad setters found")


def check_where_traps(ctx, rep, scope_fns):
    """C12.N — torch.where(D != 0, f(…/D…), g) evaluates both branches: where D == 0 the unselected quotient is 0/0 and its NaN gradient flows back through the mask"""
    n = 0
    for qual, m, fn in scope_fns:
        defs = local_assignments(fn)
        for c in ast.walk(fn):
            if not (isinstance(c, ast.Call) and method_name(c) == 'where' and len(c.args) == 3):
                continue
            n += 1
            g = c.args[0]
            if isinstance(g, ast.Name) and g.id in defs and len(defs[g.id]) == 1:
                g = defs[g.id][0]
            tested = None
            nonzero_branch = None
            if isinstance(g, ast.Compare) and len(g.ops) == 1 and isinstance(g.comparators[0], ast.Constant) and isinstance(g.comparators[0].value, (int, float)):
                left = g.left
                if isinstance(left, ast.Call) and method_name(left) == 'abs':
                    left = left.func.value if isinstance(left.func, ast.Attribute) and not (isinstance(left.func.value, ast.Name) and left.func.value.id == 'torch') else left.args[0]
                zero = float(g.comparators[0].value) == 0.0
                if isinstance(g.ops[0], (ast.NotEq, ast.Gt)) and (zero or isinstance(g.ops[0], ast.Gt)):
                    tested, nonzero_branch = left, c.args[1]
                elif isinstance(g.ops[0], (ast.Eq, ast.Lt, ast.LtE)) and (zero or not isinstance(g.ops[0], ast.Eq)):
                    tested, nonzero_branch = left, c.args[2]
            key = f"{qual.replace('torchtree.', '')}::{norm_text(c)[:50]}"
            if tested is None:
                rep.ok('C12.N', key, where(m, c), {'class': 'guard is not a zero test'})
                continue
            ttxt = ast.unparse(tested)
            names = {ttxt}
            divides = []
            for e in backward_slice(nonzero_branch, defs):
                for x in ast.walk(e):
                    if isinstance(x, ast.BinOp) and isinstance(x.op, ast.Div) and ast.unparse(x.right) in names:
                        divides.append(ast.unparse(x)[:60])
                    if isinstance(x, ast.Call) and method_name(x) in ('log', 'reciprocal', 'rsqrt') and any(ast.unparse(a) in names for a in list(x.args) + ([x.func.value] if isinstance(x.func, ast.Attribute) else [])):
                        divides.append(ast.unparse(x)[:60])
            rep.check('C12.N', key, not divides, where(m, c), {'tested': ttxt, 'singular_in_selected_branch': divides},
                      f"{qual}: `torch.where` selects `{divides[0] if divides else ''}` where `{ttxt}` is non-zero, but evaluates it everywhere: at the masked-out positions the "
                      f"quotient is 0/0 and its NaN gradient reaches every input of that branch (value right, gradient NaN); use a masked assignment or a safe denominator")
    rep.analysed['where_calls'] = n


MASK_POSITIVE = """
def log_prob(self, heights_sorted):
    durations = heights_sorted[..., 1:] - heights_sorted[..., :-1]
    x = self.growth * durations
    is_zero = (x == 0.0).to(x.dtype)
    ratio = torch.expm1(x) / (x + is_zero) + is_zero
    node_mask = torch.full(shape, -1)
    keep = (node_mask == -1).to(x.dtype)
    return ratio * keep
"""


def mask_patches(fn):
    """[(binop, mask name, tested text)]: a float mask built from an EQUALITY test on a differentiable value (`(x == 0.0).to(dtype)`) that takes part in arithmetic with values of
    the density.  Such a patch makes the value right at the singular point, but autograd differentiates the patched expression (`expm1(x) / (x + 1) + 1` at x = 0), not the
    function's continuous extension: the derivative there is that of the patch."""
    defs = local_assignments(fn)
    params = {a.arg for a in fn.args.args + fn.args.kwonlyargs} - {'self'}

    def differentiable(e):
        for z in backward_slice(e, defs):
            for y in ast.walk(z):
                if isinstance(y, ast.Attribute) and isinstance(y.value, ast.Name) and y.value.id == 'self':
                    return True
                if isinstance(y, ast.Name) and y.id in params:
                    return True
        return False
    masks = {}
    for st in ast.walk(fn):
        if isinstance(st, ast.Assign) and len(st.targets) == 1 and isinstance(st.targets[0], ast.Name):
            v = st.value
            while isinstance(v, ast.Call) and isinstance(v.func, ast.Attribute) and v.func.attr in ('to', 'float', 'double', 'type', 'type_as', 'half') and \
                    not (isinstance(v.func.value, ast.Name) and v.func.value.id == 'torch'):
                inner = v.func.value
                if isinstance(inner, ast.Compare) and len(inner.ops) == 1 and isinstance(inner.ops[0], (ast.Eq, ast.NotEq)) and isinstance(inner.comparators[0], ast.Constant) \
                        and isinstance(inner.comparators[0].value, (int, float)) and differentiable(inner.left):
                    masks[st.targets[0].id] = ast.unparse(inner)
                v = inner
    out = []
    for x in ast.walk(fn):
        if isinstance(x, ast.BinOp) and isinstance(x.op, (ast.Add, ast.Sub, ast.Mult, ast.Div)):
            for side in (x.left, x.right):
                if isinstance(side, ast.Name) and side.id in masks:
                    out.append((x, side.id, masks[side.id]))
    return out


def check_mask_patches(ctx, rep, scope_fns):
    t = ast.parse(MASK_POSITIVE).body[0]
    got = sorted({mk for _, mk, _ in mask_patches(t)})
    if got != ['is_zero']:
        raise AnalysisError(f"C12.N self-check: masks of the embedded example are {got}")
    n = 0
    for qual, m, fn in scope_fns:
        n += 1
        seen = set()
        for node, mk, tested in mask_patches(fn):
            if mk in seen:
                continue
            seen.add(mk)
            rep.bad('C12.N', f"{qual.replace('torchtree.', '')}::value-patched-with-the-mask-{mk}", where(m, node), {'mask': tested, 'first_use': norm_text(node)[:80]},
                    f"{qual}: the float mask `{mk} = ({tested})…` is used in arithmetic (`{norm_text(node)[:60]}`): the value is right at the masked point, but back-propagation "
                    f"differentiates the patched expression there, not the limit of the function — the gradient with respect to the tested quantity is wrong exactly where the patch applies")
    rep.ok('C12.N', 'mask-patches::scanned', '', {'functions': n})


def check_leaf_rebinding(ctx, rep):
    """C12.S — assigning a new value to a Parameter installs a *new* leaf tensor (`self._tensor = tensor`) on every path.  HMC and the optimiser loops read `parameter.grad`
    after each backward() without zeroing it, relying on every assignment to start from a leaf without a `.grad`; copying the value into the existing leaf keeps the old
    `.grad`, so the next backward() accumulates and the gradient read is the sum over the evaluations so far."""
    from sa.cfg import CFG
    cls = ctx.classes.get('torchtree.core.parameter.Parameter')
    r = cls.resolve('tensor', 'setter')
    if not r:
        raise AnalysisError('Parameter.tensor setter not found')
    fn = r[1]
    arg = fn.args.args[1].arg
    cfg = CFG(fn)
    rebinds = [n for n in cfg.stmt_nodes() if isinstance(n.stmt, ast.Assign) and any(self_attr(t) == '_tensor' for t in n.stmt.targets)
               and isinstance(n.stmt.value, ast.Name) and n.stmt.value.id == arg]
    clears = [n for n in cfg.stmt_nodes() if isinstance(n.stmt, ast.Assign) and any(isinstance(t, ast.Attribute) and t.attr == 'grad' for t in n.stmt.targets)
              and isinstance(n.stmt.value, ast.Constant) and n.stmt.value.value is None]
    inplace = [n.stmt for n in cfg.stmt_nodes() if n.stmt is not None and any(isinstance(c, ast.Call) and isinstance(c.func, ast.Attribute) and c.func.attr in ('copy_', 'set_', 'fill_')
                                                                             and self_attr(c.func.value) == '_tensor' for c in ast.walk(n.stmt))
               and not isinstance(n.stmt, (ast.If, ast.With, ast.For, ast.While, ast.Try))]
    ok = bool(rebinds) and cfg.must_pass(cfg.entry, cfg.exit, rebinds + clears)
    rep.check('C12.S', 'Parameter.tensor.setter::installs-a-new-leaf-on-every-path', ok, where(cls.module, fn),
              {'rebinding_statements': len(rebinds), 'in_place_copies': [norm_text(s_)[:60] for s_ in inplace]},
              f"Parameter.tensor setter has a path that does not rebind self._tensor to the assigned tensor ({[norm_text(s_)[:50] for s_ in inplace] or 'no store'}): the existing leaf keeps "
              f"its .grad, and the gradient read after the next backward() is the sum over all evaluations since (the leapfrog integrator and the optimiser retry loop read "
              f"parameter.grad without zeroing it)")


def run(ctx, rep):
    rep.explanation = (
        "Every method on a differentiable path (all methods of the model, distribution, transform and parameter classes outside construction / "
        "parsing / sampling, plus the likelihood kernels and smooth ops) is scanned for constructs that cut the autograd graph: .detach() / .item() / "
        ".tolist() / .numpy() / .data / float() / int() / torch.tensor(x) / torch.no_grad() / autograd.functional.jacobian|hessian without "
        "create_graph=True.  Each is classified: derived from shapes only, a literal, used only as an index or in a comparison, allow-listed with a "
        "reason (estimators defined with stop-gradients, torch.unique of tip dates) — anything else is a violation: the value returned no longer "
        "carries the derivative with respect to a parameter it depends on."
    )
    rep.rule('C12.N', "no torch.where whose selected branch divides by (or takes the log of) the very quantity the guard tests for zero")
    rep.rule('C12.S', "assigning to a Parameter installs a new leaf tensor on every path of the setter (no stale .grad is carried into the next backward())")
    rep.rule('C12.G', "requires_grad setters notify listeners (caches evaluated before the switch hold graph-less tensors)")
    rep.rule('C12.D', "no graph-cutting construct on a differentiable path (shape-derived / literal / index-only / allow-listed uses excepted)")
    rep.assumptions += ["Tensor.detach/item/tolist/numpy/.data, torch.no_grad, torch.tensor(t), float(t)/int(t) and autograd.functional.jacobian/hessian "
                        "with create_graph=False cut the autograd graph"]
    rep.not_decided += ["numerical agreement with finite differences", "in-place version-counter hazards", "ties between event times", "zero gradients from masked arithmetic"]
    n_fn = 0
    n_c = 0
    targets = []
    owner = {}
    for ci in sorted(ctx.classes.classes.values(), key=lambda c: c.qualname):
        if any(x in ci.qualname for x in SKIP_PACKAGES):
            continue
        differentiable = ci.has_base('torchtree.core.parametric.Parametric') or ci.has_base('torchtree.core.abstractparameter.AbstractParameter') or \
            any(isinstance(b, str) and (b.startswith('torch.distributions') or b.endswith('.Transform') or b.endswith('.Distribution') or b == 'torch.nn.Module')
                for b in ci.mro)
        if not differentiable:
            continue
        for tbl in (ci.methods, ci.getters, ci.setters):
            for name, fn in tbl.items():
                if name in SKIP_METHODS:
                    continue
                targets.append((ci.module, f"{ci.qualname}.{name}", fn))
                owner[id(fn)] = ci
    for mname in KERNEL_MODULES:
        m = ctx.prog.module(mname)
        for name, fn in m.functions.items():
            targets.append((m, f"{mname}.{name}", fn))
    for mname, fname in KERNEL_FUNCTIONS:
        m = ctx.prog.module(mname)
        if fname in m.functions:
            targets.append((m, f"{mname}.{fname}", m.functions[fname]))
    for m, qual, fn in targets:
        n_fn += 1
        defs = local_assignments(fn)
        for node, kind, text in constructs(fn):
            n_c += 1
            key = f"{qual}::{kind}::{norm_text(node)[:60] if not isinstance(node, ast.With) else 'with no_grad'}"
            W = where(m, node)
            if (qual, kind) in ALLOW:
                rep.excluded('C12.D', key, W, ALLOW[(qual, kind)])
                continue
            if kind == 'torch.tensor':
                arg = node.args[0] if node.args else None
                if arg is None or literal_only(arg) or shape_derived(arg, defs):
                    rep.ok('C12.D', key, W, {'class': 'literal / shape-derived'})
                    continue
            if kind in ('int()', 'float()'):
                if shape_derived(node.args[0], defs):
                    rep.ok('C12.D', key, W, {'class': 'shape-derived'})
                    continue
            if kind == 'zero-derivative':
                operand = node.args[0] if (isinstance(node.func.value, ast.Name) and node.func.value.id == 'torch' and node.args) else node.func.value
                if shape_derived(operand, defs) or literal_only(operand) or index_only(node, fn):
                    rep.ok('C12.D', key, W, {'class': 'shape-derived / literal / index or comparison only'})
                    continue
                rep.bad('C12.D', key, W, {'construct': text[:100], 'kind': kind},
                        f"{qual}: `{text[:70]}` is piecewise constant: its derivative is zero, so everything the rounded value depends on stops receiving a gradient through it "
                        f"while the returned value still changes with those parameters")
                continue
            if kind == 'no_grad' and isinstance(node, ast.With):
                # writing into a leaf that requires grad is only possible outside the graph: `if <p>.requires_grad: with torch.no_grad(): <in-place write>` is that case and
                # nothing else — the same block without the test also strips the graph of values assigned to parameters that are NOT leaves requiring grad (a reparameterised
                # draw written through a view)
                p_, child_, guarded = getattr(node, '_parent', None), node, False
                while p_ is not None and p_ is not fn:
                    if isinstance(p_, ast.If) and any(child_ is b for b in p_.body) and 'requires_grad' in ast.unparse(p_.test) \
                            and not (isinstance(p_.test, ast.UnaryOp) and isinstance(p_.test.op, ast.Not)):
                        guarded = True
                    child_, p_ = p_, getattr(p_, '_parent', None)
                writes_only = all(isinstance(b, (ast.Assign, ast.AugAssign)) and all(isinstance(t, ast.Subscript) for t in (b.targets if isinstance(b, ast.Assign) else [b.target]))
                                  for b in node.body)
                if guarded and writes_only:
                    rep.ok('C12.D', key, W, {'class': 'in-place write into a leaf that requires grad (guarded by a requires_grad test)'})
                    continue
            if kind == 'eigh-of-a-triangle':
                rep.bad('C12.D', key, W, {'construct': text[:100], 'kind': kind},
                        f"{qual}: `{text[:60]}`: the value is the same (eigh reads one triangle), but the derivative of eigh is written for a symmetric argument — through tril / triu "
                        f"half of every off-diagonal cotangent is thrown away, so the gradients of everything the matrix is built from are wrong while the value is right")
                continue
            if kind == 'value-branch':
                cmp_ = next(x for x in ast.walk(node) if isinstance(x, ast.Compare))
                operand = next((y for y in [cmp_.left] + cmp_.comparators if not isinstance(y, ast.Constant)), None)
                ci_ = owner.get(id(fn))
                from sa.util import backward_slice as _bs
                from_object = operand is not None and any(isinstance(y, ast.Attribute) and isinstance(y.value, ast.Name) and y.value.id == 'self' for e_ in _bs(operand, defs) for y in ast.walk(e_))
                if operand is None or shape_derived(operand, defs) or literal_only(operand) or not (may_be_tensor(operand, fn, ci_) or from_object):
                    rep.ok('C12.D', key, W, {'class': 'the tested value is not a tensor computed from parameters'})
                    continue
                rep.bad('C12.D', key, W, {'construct': text[:100], 'kind': kind},
                        f"{qual}: `{text[:60]}` chooses the formula by testing a computed value for EQUALITY with a constant: exactly at that value (a relative rate of 1.0 is where "
                        f"every run starts) the branch that leaves the parameter out of the graph is taken — the returned value still depends on the parameter, its gradient is "
                        f"missing (None) or zero")
                continue
            if kind == 'no-derivative':
                ws = [k.value for k in node.keywords if k.arg == 'weights'] or list(node.args[1:]) or list(node.args[:1])
                if all(shape_derived(w, defs) or literal_only(w) for w in ws):
                    rep.ok('C12.D', key, W, {'class': 'weights shape-derived / literal'})
                    continue
                rep.bad('C12.D', key, W, {'construct': text[:100], 'kind': kind},
                        f"{qual}: `{text[:70]}` accumulates values with an operation torch has no derivative for: the result still changes with the weights, but back-propagation "
                        f"through it raises (or the weights' parameters get no gradient)")
                continue
            if kind == 'factory-scalar':
                ci_ = owner.get(id(fn))
                if shape_derived(node, defs) or literal_only(node) or not may_be_tensor(node, fn, ci_):
                    rep.ok('C12.D', key, W, {'class': 'a Python number (shape-derived / literal / not a tensor)'})
                    continue
                rep.bad('C12.D', key, W, {'construct': text[:100], 'kind': kind},
                        f"{qual}: `{ast.unparse(node)[:40]}` is handed to `{text[:50]}` as a scalar: torch reads a 0-dim tensor there as a Python number, so the grid no longer depends on it "
                        f"in the graph and its gradient is missing (None) although the value changes with it")
                continue
            if kind == 'gradient-hook':
                rep.bad('C12.D', key, W, {'construct': text[:100], 'kind': kind},
                        f"{qual}: `{text[:70]}` installs a hook that rewrites the gradient flowing through a value of the density: what back-propagation returns is no longer "
                        f"the derivative of the reported value (wherever the hook changes anything)")
                continue
            if kind in ('.item', '.tolist', '.numpy', 'int()', 'float()') and index_only(node, fn):
                rep.ok('C12.D', key, W, {'class': 'index / comparison only'})
                continue
            if kind.startswith('autograd.'):
                cg = any(kw.arg == 'create_graph' and isinstance(kw.value, ast.Constant) and kw.value.value is True for kw in node.keywords)
                rep.check('C12.D', key, cg, W, {'construct': text[:80]},
                          f"{qual}: `{text[:60]}` builds the Jacobian without create_graph=True: the value computed from it is detached, so this term "
                          f"contributes no gradient (back-propagating through it raises or silently gives zero)")
                continue
            rep.bad('C12.D', key, W, {'construct': text[:100], 'kind': kind},
                    f"{qual}: `{text[:70]}` cuts the autograd graph on a differentiable path: parameters that influence the returned value through it "
                    f"receive a missing or zero gradient")
    check_where_traps(ctx, rep, [(qual, m, fn) for m, qual, fn in targets])
    check_mask_patches(ctx, rep, [(qual, m, fn) for m, qual, fn in targets])
    check_math_on_tensors(ctx, rep, [(m, qual, fn, owner.get(id(fn))) for m, qual, fn in targets])
    check_requires_grad_setters(ctx, rep)
    check_leaf_rebinding(ctx, rep)
    rep.analysed['functions_scanned'] = n_fn
    rep.analysed['constructs_classified'] = n_c
    if n_fn < 250 or n_c < 20:
        raise AnalysisError(f"only {n_fn} functions / {n_c} constructs scanned")
    # C12.H — the gradient is that of the value at the CURRENT point: a model that keeps a value (and its graph) of an earlier point hands back the old graph — backward then
    # raises or returns the previous point's gradient.  The change handlers of the models on differentiable paths mark every cache dirty and pass the event on (C11.H rules).
    from props import c11
    from sa.members import Kinds
    from sa.report import RuleProxy
    rep.rule('C12.H', "models on differentiable paths (tree, clock, site, substitution models, likelihood, coalescent / birth-death priors) invalidate their caches and forward every change (C11.H rules)")
    kinds = Kinds(ctx.classes)
    nh = 0
    for cls in sorted(ctx.classes.classes.values(), key=lambda c: c.qualname):
        if cls.module.name.startswith('torchtree.evolution') and not cls.is_abstract() and cls.has_base('torchtree.core.parametric.Parametric'):
            nh += 1
            c11.check_handlers(ctx, RuleProxy(rep, 'C12.H', 'handlers::'), kinds, cls)
    if nh < 25:
        rep.incomplete('C12.H', '*', '', f"only {nh} model classes found")
    # C12.X — torch's Transform cache (cache_size=1) is keyed by tensor identity: after `requires_grad = True` or an in-place step the transformed value of the OLD graph is
    # returned and the gradient with respect to x is missing (C11.X rule)
    rep.rule('C12.X', "the transforms of TransformedParameters and tree models keep torch's identity-keyed cache off (C11.X rule)")
    c11.check_transform_cache(ctx, RuleProxy(rep, 'C12.X', ''), floor=5)
