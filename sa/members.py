"""Instance members of a class and kinds of registered attributes.

Encodes the repo's `Parametric.__setattr__/__getattr__` protocol: an attribute assigned a
value of parameter kind (AbstractParameter) or model kind (Model) is *registered*: the
holder is added as a listener of that value.
"""
from __future__ import annotations

import ast
from typing import Dict, List, Optional, Set, Tuple

from .classes import ClassInfo, ClassTable
from .loader import dotted_name

PARAM_BASE = 'torchtree.core.abstractparameter.AbstractParameter'
MODEL_BASE = 'torchtree.core.model.Model'
PARAMETRIC = 'torchtree.core.parametric.Parametric'

PARAM, MODEL, OTHER, UNKNOWN = 'param', 'model', 'other', 'unknown'


def self_attr(node) -> Optional[str]:
    if isinstance(node, ast.Attribute) and isinstance(node.value, ast.Name) and node.value.id == 'self':
        return node.attr
    return None


def methods_along_mro(cls: ClassInfo):
    """(defining class, kind, name, fn) for every function body of every class in the MRO."""
    for c in cls.internal_mro():
        for kind, table in (('method', c.methods), ('getter', c.getters), ('setter', c.setters)):
            for name, fn in table.items():
                yield c, kind, name, fn


def instance_members(cls: ClassInfo) -> Set[str]:
    """Every name that can resolve on an instance: class-level names, methods, properties
    along the MRO, every `self.X = …` / `setattr(self, 'X', …)` target in any method."""
    out: Set[str] = set()
    for c in cls.internal_mro():
        out |= set(c.methods) | set(c.getters) | set(c.setters) | set(c.class_attrs)
        for st in c.node.body:
            if isinstance(st, ast.ClassDef):
                out.add(st.name)
    for c, kind, name, fn in methods_along_mro(cls):
        for n in ast.walk(fn):
            if isinstance(n, (ast.Assign, ast.AugAssign, ast.AnnAssign)):
                targets = n.targets if isinstance(n, ast.Assign) else [n.target]
                for t in targets:
                    for e in ast.walk(t):
                        a = self_attr(e)
                        if a and isinstance(e.ctx, ast.Store):
                            out.add(a)
            elif isinstance(n, (ast.For, ast.With)):
                for e in ast.walk(n.target if isinstance(n, ast.For) else ast.Tuple(elts=[i.optional_vars for i in n.items if i.optional_vars], ctx=ast.Store())):
                    a = self_attr(e)
                    if a:
                        out.add(a)
            elif isinstance(n, ast.Call) and isinstance(n.func, ast.Name) and n.func.id == 'setattr':
                if len(n.args) >= 2 and isinstance(n.args[0], ast.Name) and n.args[0].id == 'self' \
                        and isinstance(n.args[1], ast.Constant):
                    out.add(str(n.args[1].value))
    # python object protocol
    out |= {'__class__', '__dict__', '__doc__', '__module__', '__init__', '__repr__', '__str__', '__eq__',
            '__hash__', '__getattribute__', '__setattr__', '__delattr__', '__dir__', '__sizeof__', '__reduce__'}
    return out


def has_dynamic_members(cls: ClassInfo) -> bool:
    """setattr(self, <non-constant>, …) anywhere along the MRO (Container idiom)."""
    for c, kind, name, fn in methods_along_mro(cls):
        for n in ast.walk(fn):
            if isinstance(n, ast.Call) and isinstance(n.func, ast.Name) and n.func.id == 'setattr':
                if len(n.args) >= 2 and isinstance(n.args[0], ast.Name) and n.args[0].id == 'self' \
                        and not isinstance(n.args[1], ast.Constant):
                    return True
    return False


# ---------------------------------------------------------------------------
# kinds
# ---------------------------------------------------------------------------

class Kinds:
    def __init__(self, table: ClassTable):
        self.table = table
        self._alias_cache: Dict[Tuple[str, str], Optional[ast.AST]] = {}

    def class_kind(self, ci: ClassInfo) -> str:
        if ci.has_base(PARAM_BASE):
            return PARAM
        if ci.has_base(MODEL_BASE):
            return MODEL
        return OTHER

    def annotation_kinds(self, module, ann: Optional[ast.AST], depth=0) -> Set[str]:
        """set of kinds an annotated value may have; {UNKNOWN} if it cannot be told."""
        if ann is None:
            return {UNKNOWN}
        if depth > 6:
            return {UNKNOWN}
        if isinstance(ann, ast.Constant):
            if ann.value is None:
                return {OTHER}
            if isinstance(ann.value, str):
                try:
                    return self.annotation_kinds(module, ast.parse(ann.value, mode='eval').body, depth + 1)
                except SyntaxError:
                    return {UNKNOWN}
            return {OTHER}
        if isinstance(ann, ast.BinOp) and isinstance(ann.op, ast.BitOr):
            return self.annotation_kinds(module, ann.left, depth + 1) | self.annotation_kinds(module, ann.right, depth + 1)
        if isinstance(ann, ast.Subscript):
            head = dotted_name(ann.value) or ''
            last = head.split('.')[-1]
            sl = ann.slice
            elts = sl.elts if isinstance(sl, ast.Tuple) else [sl]
            if last in ('Union', 'Optional'):
                out: Set[str] = set()
                for e in elts:
                    out |= self.annotation_kinds(module, e, depth + 1)
                return out
            # containers (list[...], dict[...], Type[...], OrderedDict[...]) are never registered
            return {OTHER}
        dn = dotted_name(ann)
        if dn is None:
            return {UNKNOWN}
        q = self.table.prog.resolve_name(module, dn)
        r = self.table.prog.resolve(q)
        if r is None:
            if q.split('.')[0] == self.table.prog.package:
                return {UNKNOWN}
            return {OTHER}  # builtins, torch, typing …
        if r[0] == 'class':
            ci = self.table.classes.get(f"{r[1].name}.{r[2].name}")
            return {self.class_kind(ci)} if ci else {UNKNOWN}
        if r[0] == 'const':
            # typing alias defined in the package (torchtree.typing.ID = Union[str, None])
            return self.annotation_kinds(r[1], r[2], depth + 1)
        return {UNKNOWN}

    def value_kinds(self, cls: ClassInfo, fn: ast.FunctionDef, value: ast.AST, local_env=None) -> Set[str]:
        """kinds of the value of an expression inside `fn` (a method of `cls`)."""
        module = cls.module
        args = {a.arg: a for a in fn.args.args + fn.args.kwonlyargs}
        if isinstance(value, ast.Name):
            if local_env and value.id in local_env:
                return local_env[value.id]
            if value.id in args:
                a = args[value.id]
                ks = self.annotation_kinds(module, a.annotation)
                if ks == {UNKNOWN}:
                    d = _default_of(fn, value.id)
                    if isinstance(d, ast.Constant) and not (d.value is None):
                        return {OTHER}
                return ks
            return {UNKNOWN}
        if isinstance(value, ast.Constant):
            return {OTHER}
        if isinstance(value, ast.IfExp):
            return self.value_kinds(cls, fn, value.body, local_env) | self.value_kinds(cls, fn, value.orelse, local_env)
        if isinstance(value, ast.Call):
            ci = self.table.resolve_class_expr(module, value.func)
            if ci is not None:
                return {self.class_kind(ci)}
            dn = dotted_name(value.func) or ''
            q = self.table.prog.resolve_name(module, dn) if dn else ''
            if q.split('.')[0] in ('torch', 'math', 'numpy', 'collections', 'len', 'int', 'float', 'list', 'dict',
                                   'tuple', 'set', 'OrderedDict', 'str', 'bool', 'type', 'range', 'sum', 'max', 'min'):
                return {OTHER}
            if q.startswith('nn.') or q.startswith('torch.'):
                return {OTHER}
            a = self_attr(value.func)
            if a is not None:
                # self.method(...): look at the return annotation
                r = cls.resolve(a)
                if r and r[1].returns is not None:
                    return self.annotation_kinds(r[0].module, r[1].returns)
                if r:
                    return {OTHER} if _returns_tensorish(r[1]) else {UNKNOWN}
            if isinstance(value.func, ast.Attribute):
                # method of some value (x.tensor.log(), torch…): tensors / plain python
                return {OTHER}
            return {UNKNOWN}
        if isinstance(value, (ast.List, ast.Tuple, ast.Dict, ast.Set, ast.ListComp, ast.DictComp, ast.Lambda,
                              ast.BinOp, ast.UnaryOp, ast.Compare, ast.BoolOp, ast.JoinedStr, ast.Subscript)):
            return {OTHER}
        if isinstance(value, ast.Attribute):
            # x.attr of something: tensors, sizes … (a parameter held by another object would
            # be `other.param`; not used for registration in this code base)
            return {OTHER}
        return {UNKNOWN}


def refine_unknown_param(table: ClassTable, defcls: ClassInfo, pname: str) -> Set[str]:
    """An un-annotated constructor parameter is `other` when every from_json of every subclass
    feeds it (by the same parameter name) from something that is not a process_object* result
    or a registry lookup; otherwise it stays unknown."""
    feeders = []
    for sub in table.classes.values():
        if not sub.has_base(defcls.qualname):
            continue
        fj = sub.methods.get('from_json')
        if fj is None:
            continue
        r = sub.resolve('__init__')
        if r is None:
            continue
        init = r[1]
        params = [a.arg for a in init.args.args][1:]
        if pname not in params and pname not in [a.arg for a in init.args.kwonlyargs]:
            continue
        for n in ast.walk(fj):
            if isinstance(n, ast.Call) and isinstance(n.func, ast.Name) and n.func.id in ('cls', sub.name):
                expr = None
                for p, a in zip(params, n.args):
                    if p == pname:
                        expr = a
                for kw in n.keywords:
                    if kw.arg == pname:
                        expr = kw.value
                    elif kw.arg is None:
                        return {UNKNOWN}
                if expr is None:
                    continue
                feeders.append((fj, expr))
    if not feeders:
        return {UNKNOWN}
    for fj, expr in feeders:
        exprs = [expr]
        if isinstance(expr, ast.Name):
            exprs = [st.value for st in ast.walk(fj) if isinstance(st, ast.Assign)
                     and any(isinstance(t, ast.Name) and t.id == expr.id for t in st.targets)]
            if not exprs:
                return {UNKNOWN}
        for e in exprs:
            for n in ast.walk(e):
                if isinstance(n, ast.Call):
                    dn = (dotted_name(n.func) or '').split('.')[-1]
                    if dn.startswith('process_object') or dn in ('get_class',):
                        return {UNKNOWN}
                if isinstance(n, ast.Subscript) and isinstance(n.value, ast.Name) and n.value.id == 'dic':
                    return {UNKNOWN}
                if isinstance(n, ast.Name) and n.id in ('data',) and isinstance(e, ast.Name):
                    return {UNKNOWN}
            if isinstance(e, ast.Constant):
                continue
    return {OTHER}


def _default_of(fn: ast.FunctionDef, name: str):
    args = fn.args.args
    d = fn.args.defaults
    for a, dv in zip(args[len(args) - len(d):], d):
        if a.arg == name:
            return dv
    for a, dv in zip(fn.args.kwonlyargs, fn.args.kw_defaults):
        if a.arg == name:
            return dv
    return None


def _returns_tensorish(fn) -> bool:
    return True


def registered_attrs(kinds: Kinds, cls: ClassInfo) -> Dict[str, dict]:
    """attribute -> {'kinds': set, 'where': (class, lineno)} for every `self.X = value`
    store in an `__init__` along the MRO (the constructor chain)."""
    out: Dict[str, dict] = {}
    for c in cls.internal_mro():
        init = c.methods.get('__init__')
        if init is None:
            continue
        # local variables assigned before being stored
        local_env: Dict[str, Set[str]] = {}
        for st in ast.walk(init):
            if isinstance(st, ast.Assign) and len(st.targets) == 1 and isinstance(st.targets[0], ast.Name):
                local_env[st.targets[0].id] = kinds.value_kinds(c, init, st.value, local_env)
        for st in ast.walk(init):
            if isinstance(st, ast.Assign):
                for t in st.targets:
                    a = self_attr(t)
                    if a is None:
                        continue
                    ks = kinds.value_kinds(c, init, st.value, local_env)
                    if ks == {UNKNOWN} and isinstance(st.value, ast.Name):
                        ks = refine_unknown_param(kinds.table, c, st.value.id)
                    e = out.setdefault(a, {'kinds': set(), 'where': (c.qualname, st.lineno)})
                    e['kinds'] |= ks
            elif isinstance(st, ast.Call) and isinstance(st.func, ast.Name) and st.func.id == 'setattr':
                if len(st.args) == 3 and isinstance(st.args[0], ast.Name) and st.args[0].id == 'self':
                    key = st.args[1].value if isinstance(st.args[1], ast.Constant) else '<dynamic>'
                    e = out.setdefault(str(key), {'kinds': set(), 'where': (c.qualname, st.lineno)})
                    e['kinds'] |= {PARAM, MODEL} if key == '<dynamic>' else kinds.value_kinds(c, init, st.args[2], local_env)
    return out


def attr_reads(fn: ast.AST) -> Set[str]:
    """self.X names read (Load context, or the object of a method call) inside fn."""
    out = set()
    for n in ast.walk(fn):
        a = self_attr(n)
        if a and isinstance(n.ctx, ast.Load):
            out.add(a)
    return out


def transitive_reads(cls: ClassInfo, fn: ast.AST, depth: int = 3, _seen=None) -> Set[str]:
    """self attributes read by fn, following self.method() calls and property getters
    resolved in `cls`."""
    _seen = _seen if _seen is not None else set()
    out: Set[str] = set()
    for a in attr_reads(fn):
        out.add(a)
        if depth <= 0 or a in _seen:
            continue
        _seen.add(a)
        r = cls.resolve(a, 'method') or cls.resolve(a, 'getter')
        if r:
            out |= transitive_reads(cls, r[1], depth - 1, _seen)
    return out
