"""C03 — likelihood accuracy does not degrade with tree size (no silent underflow)."""
from __future__ import annotations

import ast
from typing import List

from sa.kernels import MODULE, extract, method_name
from sa.loader import AnalysisError, Unsupported, dotted_name, norm_text
from sa.members import self_attr
from sa.report import where

MODEL = 'torchtree.evolution.tree_likelihood.TreeLikelihoodModel'


def inf_test_kind(t) -> str:
    """'some' if the test is true as soon as one element is infinite, 'all' if it needs every element, '?' otherwise"""
    def red(e):
        # (reduction, inner)
        if isinstance(e, ast.Call):
            n = method_name(e)
            if n in ('any', 'all'):
                if isinstance(e.func, ast.Attribute) and not (isinstance(e.func.value, ast.Name) and e.func.value.id == 'torch'):
                    return n, e.func.value
                if e.args:
                    return n, e.args[0]
            if n in ('bool',) and e.args:
                return red(e.args[0])
        return None, e

    def elem(e):
        # 'inf' | 'finite' | None for the element-wise predicate
        if isinstance(e, ast.Call) and method_name(e) in ('isinf', 'isneginf'):
            return 'inf'
        if isinstance(e, ast.Call) and method_name(e) == 'isfinite':
            return 'finite'
        if isinstance(e, ast.UnaryOp) and isinstance(e.op, (ast.Invert, ast.Not)):
            r = elem(e.operand)
            return {'inf': 'finite', 'finite': 'inf'}.get(r)
        if isinstance(e, ast.Call) and method_name(e) == 'logical_not':
            r = elem(e.args[0] if e.args else e.func.value)
            return {'inf': 'finite', 'finite': 'inf'}.get(r)
        return None
    neg = False
    while isinstance(t, ast.UnaryOp) and isinstance(t.op, ast.Not):
        neg = not neg
        t = t.operand
    r, inner = red(t)
    el = elem(inner)
    if el is None:
        return '?'
    if r is None:
        return '?' if neg or el != 'inf' else 'some'   # scalar isinf(v): only meaningful un-batched, and an error (not silence) otherwise
    table = {('any', 'inf', False): 'some', ('all', 'finite', True): 'some', ('all', 'inf', False): 'all', ('any', 'finite', True): 'all'}
    return table.get((r, el, neg), '?')


FINFO = {'float32': {'tiny': 1.1754943508222875e-38, 'smallest_normal': 1.1754943508222875e-38, 'eps': 1.1920928955078125e-07, 'max': 3.4028234663852886e+38, 'denorm_min': 1.401298464324817e-45},
         'float64': {'tiny': 2.2250738585072014e-308, 'smallest_normal': 2.2250738585072014e-308, 'eps': 2.220446049250313e-16, 'max': 1.7976931348623157e+308, 'denorm_min': 5e-324}}


def fold_threshold(e, dtype: str):
    """value of the rescaling threshold expression when the model's dtype is `dtype` (float32 / float64)"""
    import math
    if isinstance(e, ast.Constant) and isinstance(e.value, (int, float)):
        return float(e.value)
    if isinstance(e, ast.IfExp):
        t = e.test
        if isinstance(t, ast.Compare) and len(t.ops) == 1 and isinstance(t.ops[0], (ast.Eq, ast.NotEq, ast.Is, ast.IsNot)):
            sides = [ast.unparse(t.left), ast.unparse(t.comparators[0])]
            named = [x.split('.')[-1] for x in sides if x.split('.')[-1] in ('float32', 'float64', 'float', 'double')]
            if len(named) == 1 and any(x.endswith('.dtype') for x in sides):
                want = {'float': 'float32', 'double': 'float64'}.get(named[0], named[0])
                truth = (want == dtype) if isinstance(t.ops[0], (ast.Eq, ast.Is)) else (want != dtype)
                return fold_threshold(e.body if truth else e.orelse, dtype)
        raise Unsupported(e, 'dtype test of the threshold not understood')
    if isinstance(e, ast.Attribute) and isinstance(e.value, ast.Call) and (dotted_name(e.value.func) or '').endswith('finfo') and e.attr in FINFO[dtype]:
        return FINFO[dtype][e.attr]
    if isinstance(e, ast.BinOp):
        l, r = fold_threshold(e.left, dtype), fold_threshold(e.right, dtype)
        if isinstance(e.op, ast.Mult):
            return l * r
        if isinstance(e.op, ast.Div):
            return l / r
        if isinstance(e.op, ast.Pow):
            return l ** r
        if isinstance(e.op, ast.Add):
            return l + r
        if isinstance(e.op, ast.Sub):
            return l - r
    if isinstance(e, ast.Call) and (dotted_name(e.func) or '').split('.')[-1] == 'sqrt' and len(e.args) == 1:
        return math.sqrt(fold_threshold(e.args[0], dtype))
    if isinstance(e, ast.Call) and (dotted_name(e.func) or '') in ('float',) and len(e.args) == 1:
        return fold_threshold(e.args[0], dtype)
    raise Unsupported(e, f"threshold expression {ast.unparse(e)[:50]} not foldable")


def check_threshold(ctx, rep):
    """the `_safe` kernel leaves a node unscaled while its largest partial is at least the threshold; its parent multiplies two such children.  The product of two
    numbers at the threshold must still be representable (> 0) in the model's precision, otherwise a node whose children were both 'large enough' is all zeros."""
    cls = ctx.classes.get(MODEL)
    init = cls.resolve('__init__')[1]
    st = [x for x in ast.walk(init) if isinstance(x, ast.Assign) and any(self_attr(t) == 'threshold' for t in x.targets)]
    if len(st) != 1:
        rep.undecided('C03.P', 'TreeLikelihoodModel.threshold', where(cls.module, init), 'assignment of self.threshold not found (or not unique)')
        return
    for dtype in ('float32', 'float64'):
        key = f"TreeLikelihoodModel.threshold::two-children-at-the-threshold-do-not-underflow::{dtype}"
        try:
            v = fold_threshold(st[0].value, dtype)
        except Unsupported as u:
            rep.undecided('C03.P', key, where(cls.module, st[0]), str(u))
            continue
        sq = v * v
        rep.check('C03.P', key, sq >= FINFO[dtype]['denorm_min'] and v < 1.0, where(cls.module, st[0]), {'threshold': v, 'threshold_squared': sq, 'smallest_positive_number': FINFO[dtype]['denorm_min']},
                  f"with dtype {dtype} the rescaling threshold is {v:g}: a node is left unscaled as long as its largest partial is above it, and the product of two such children "
                  f"({sq:g}) is below the smallest positive {dtype} number ({FINFO[dtype]['denorm_min']:g}) — the parent's partials are all zero and the log-likelihood is -inf or NaN "
                  f"although rescaling was on")


def check_scalers(ctx, rep):
    """C03.P on every rescaling kernel; returns (module, kernels)"""
    m = ctx.prog.module(MODULE)
    kernels = {}
    for name, fn in m.functions.items():
        if name.startswith('calculate_treelikelihood'):
            try:
                kernels[name] = extract(fn)
            except Unsupported as u:
                rep.undecided('C03.P', name, where(m, fn), str(u))
    rescaling = {n for n, k in kernels.items() if k.scaler is not None}
    plain = {n for n, k in kernels.items() if k.scaler is None}
    for name in sorted(rescaling):
        k = kernels[name]
        sc = k.scaler
        W = where(m, k.fn)
        rep.check('C03.P', f"{name}::scaler-is-max-of-the-divided-product", bool(sc.get('is_max') and sc.get('max_of_product') and sc.get('defined_once')), W, sc,
                  f"{name}: partials[node] must be divided by the maximum of the very product being stored")
        rep.check('C03.P', f"{name}::one-scaler-per-site-over-category-and-state", bool(sc.get('flattens_category_and_state') and sc.get('axis') == -2), W, sc,
                  f"{name}: the scaler must be the max over the flattened category×state axes (view(..., -1, N) then max over -2): the category sum happens "
                  f"after scaling, so a per-category scaler changes the mixture weights")
        rep.check('C03.P', f"{name}::scaler-recorded-on-the-same-path", bool(sc.get('appended_to') and sc.get('append_same_block_as_store')), W, sc,
                  f"{name}: every path that divides partials[node] by a scaler must append that scaler; a dropped scaler silently shifts the log-likelihood")
        rep.check('C03.P', f"{name}::broadcast-over-states", bool(sc.get('unsqueeze_states_axis')), W, sc, f"{name}: the scaler must be broadcast over the state axis (unsqueeze(-2))")
        r = k.ret
        ok = r.get('scaler_term') is not None and r.get('scaler_is_sum_log_cat') and r.get('scalers_list') == sc.get('appended_to')
        rep.check('C03.P', f"{name}::log-scalers-added-inside-weighted-sum", bool(ok), W, r,
                  f"{name}: Σ log(scaler) over the recorded scalers must be added to the per-site log-likelihood before multiplying by the pattern weights")
        if k.safe_guard is not None:
            g = k.safe_guard
            flags = g['flag_reads']
            child_flags = [v for v in flags.values() if {k.left, k.right} <= set(v)]
            marks = any(k.node in mk for mk in g['marks'])
            rep.check('C03.P', f"{name}::recompute-when-a-child-was-rescaled", bool(child_flags) and g['is_or'] and marks, W, g,
                      f"{name}: a node must be recomputed (and marked) whenever its left or right child was rescaled; otherwise a stale unscaled partial is "
                      f"combined with scaled children")
    return m, kernels


def run(ctx, rep):
    rep.explanation = (
        "C03.S: the rescale flag is monotone (only the constant True is ever stored outside the constructor).  C03.G: in both calculate_with_* "
        "methods the plain kernel result flows into an isinf test; on the true branch the flag is set and the value is re-assigned from a rescaling "
        "kernel with the same arguments; when the flag is set only a rescaling kernel runs; the two methods agree.  C03.P: in every rescaling kernel "
        "the scaler is the max over the flattened (category × state) axes of the very product that is divided, it is appended to the scalers list in "
        "the same block as the division, and the sum of log scalers is added inside the weighted sum; the incremental kernel recomputes a node "
        "whenever a child was rescaled and marks it."
    )
    rep.rule('C03.S', "once rescaling has been switched on it stays on: every store to the flag outside __init__ assigns True")
    rep.rule('C03.G', "an infinite plain result switches the flag on and is replaced by a rescaled evaluation of the same arguments; flag on ⇒ rescaling kernel only")
    rep.rule('C03.P', "per-node max scaling: scaler of the divided product, one per site over category×state, appended on the same path, log-sum added inside the weighted sum")
    rep.not_decided += ["accuracy in the band where the plain result is finite but inaccurate", "agreement with an extended-range reference"]
    m, kernels = check_scalers(ctx, rep)
    check_threshold(ctx, rep)
    # the scalers of one evaluation: recorded in a list that is fresh for every call (no mutable default), tested per site (no whole-tensor maximum decides for all sites and
    # samples at once whether a node is rescaled), and the switch is on unless somebody asked otherwise (JSON default = constructor default)
    from sa import purity, callbind
    from sa.report import RuleProxy
    from props import c10
    nk = purity.check_mutable_defaults(ctx, RuleProxy(rep, 'C03.P', 'fresh-per-call::'), 'C03.P', only=lambda m_: m_.name == MODULE)
    rep.ok('C03.P', 'fresh-per-call::kernels-scanned', '', {'functions': nk})
    c10.check_whole_reductions(ctx, RuleProxy(rep, 'C03.P', 'per-site-decisions::'), only=lambda mn: mn == MODULE)
    nj = callbind.check_json_defaults(ctx, RuleProxy(rep, 'C03.G', 'json::'), 'C03.G', only=lambda ci: ci.module.name == MODULE)
    rep.ok('C03.G', 'json::defaults-scanned', '', {'option_defaults_compared': nj})
    rescaling = {n for n, k in kernels.items() if k.scaler is not None}
    # what both kernels are handed is the data of THIS tree: the transition matrices are p_t(branch quantity x site rate), unaltered and in the kernels' [branch, category]
    # layout, with the frequencies and tip data of the same request (the C01.B assembly rules) — the rescaled value can only agree with a reference if its inputs do
    from props import c01 as _c01
    try:
        _c01.check_assembly(ctx, RuleProxy(rep, 'C03.G', 'assembly::'))
    except Unsupported as u:
        rep.undecided('C03.G', 'assembly', '', str(u))
    # … and the matrices themselves are those of the branch lengths as they are: a floor on t inside p_t gives a finite, plausible and wrong value on every tree with a
    # shorter branch, rescaled or not (the C04.E clause on every p_t)
    from props import c04 as _c04
    if _c04.check_time_enters_as_it_is(ctx, RuleProxy(rep, 'C03.G', 'time::')) < 5:
        rep.incomplete('C03.G', 'time', '', 'fewer than 5 p_t methods found')
    plain = {n for n, k in kernels.items() if k.scaler is None}
    # an underflow of the plain kernels must surface as log(0) = -inf (that is what the isinf test of C03.G looks for); in every kernel the log is taken of the
    # site likelihood itself — a clamp / epsilon in between replaces tiny likelihoods by a bound instead of evaluating them with rescaling
    for name in sorted(kernels):
        k = kernels[name]
        alt = k.ret.get('log_argument_altered')
        rep.check('C03.G', f"{name}::underflow-surfaces-as-minus-infinity", not alt, where(m, k.fn), {'wrappers_between_root_sum_and_log': alt},
                  f"{name}: the site likelihood goes through {alt} before the log: a site whose likelihood underflows is reported with the log of the bound (a finite, wrong "
                  f"number) and the switch to rescaling, which waits for an infinite result, never happens")
    # C03.S
    cls = ctx.classes.get(MODEL)
    stores = []
    for c in cls.internal_mro():
        for nm, fn in list(c.methods.items()) + list(c.setters.items()):
            for st in ast.walk(fn):
                if isinstance(st, (ast.Assign, ast.AugAssign)):
                    tg = st.targets if isinstance(st, ast.Assign) else [st.target]
                    if any(self_attr(t) == 'rescale' for t in tg):
                        stores.append((c, nm, st))
    inits = [s for s in stores if s[1] == '__init__']
    others = [s for s in stores if s[1] != '__init__']
    ok = bool(inits) and all(isinstance(s[2], ast.Assign) and isinstance(s[2].value, ast.Constant) and s[2].value.value is True for s in others)
    rep.check('C03.S', 'TreeLikelihoodModel.rescale::monotone', ok and bool(others), where(cls.module, cls.node),
              {'stores': [(nm, norm_text(st)) for _, nm, st in stores]},
              "the rescale flag must only ever be set to True after construction: resetting it makes later evaluations fall back to the underflowing kernel")
    # C03.G
    shapes = {}
    for meth in ('calculate_with_tip_partials', 'calculate_with_tip_states'):
        r = cls.resolve(meth)
        if r is None:
            raise AnalysisError(f"TreeLikelihoodModel.{meth} not found")
        fn = r[1]
        W = where(cls.module, fn)
        top = [st for st in fn.body if isinstance(st, ast.If) and self_attr(st.test) == 'rescale']
        if len(top) != 1:
            rep.bad('C03.G', f"{meth}::branch-on-flag", W, None, f"{meth}: top-level `if self.rescale:` not found")
            continue
        br = top[0]

        def kernel_calls(stmts):
            out = []
            for st in stmts:
                for c in ast.walk(st):
                    if isinstance(c, ast.Call) and isinstance(c.func, ast.Name) and c.func.id in kernels:
                        out.append(c)
            return out
        on = kernel_calls(br.body)
        rep.check('C03.G', f"{meth}::flag-on-uses-rescaling-kernel-only", bool(on) and all(c.func.id in rescaling for c in on), W,
                  {'kernels': [c.func.id for c in on]}, f"{meth}: with the flag set only a rescaling kernel may be used")
        plain_calls = [st for st in br.orelse if isinstance(st, ast.Assign) and isinstance(st.value, ast.Call) and isinstance(st.value.func, ast.Name)
                       and st.value.func.id in plain]
        checks = [st for st in br.orelse if isinstance(st, ast.If) and any(isinstance(c, ast.Call) and method_name(c) in ('isinf', 'isfinite', 'isnan') for c in ast.walk(st.test))]
        ok = len(plain_calls) == 1 and len(checks) == 1
        facts = {}
        if ok:
            v = plain_calls[0].targets[0].id
            chk = checks[0]
            tested = any(isinstance(x, ast.Name) and x.id == v for x in ast.walk(chk.test))
            is_inf = any(isinstance(c, ast.Call) and method_name(c) == 'isinf' for c in ast.walk(chk.test))
            sets = any(isinstance(st, ast.Assign) and any(self_attr(t) == 'rescale' for t in st.targets) and isinstance(st.value, ast.Constant) and st.value.value is True
                       for st in chk.body)
            redo = [st for st in chk.body if isinstance(st, ast.Assign) and isinstance(st.targets[0], ast.Name) and st.targets[0].id == v
                    and isinstance(st.value, ast.Call) and isinstance(st.value.func, ast.Name) and st.value.func.id in rescaling]
            same_args = bool(redo) and [ast.unparse(a) for a in redo[0].value.args[:6]] == [ast.unparse(a) for a in plain_calls[0].value.args[:6]]
            rets = [st for st in fn.body if isinstance(st, ast.Return)]
            returns_v = len(rets) == 1 and isinstance(rets[0].value, ast.Name) and rets[0].value.id == v
            on_v = all(isinstance(getattr(c, '_parent', None), ast.Assign) and c._parent.targets[0].id == v for c in on if isinstance(getattr(c, '_parent', None), ast.Assign))
            ok = tested and is_inf and sets and bool(redo) and same_args and returns_v and on_v
            kind = inf_test_kind(chk.test)
            if kind == '?':
                rep.undecided('C03.G', f"{meth}::switches-when-any-element-is-infinite", where(cls.module, chk), f"test `{norm_text(chk.test)}` not recognised")
            else:
                rep.check('C03.G', f"{meth}::switches-when-any-element-is-infinite", kind == 'some', where(cls.module, chk), {'test': norm_text(chk.test)},
                          f"{meth}: `{norm_text(chk.test)}` only fires when every element of the batch is infinite: a batch in which some elements underflow keeps "
                          f"returning -inf for them and never switches to rescaling")
            facts = {'value': v, 'tested_for_inf': tested and is_inf, 'sets_flag': sets, 'recomputed_with': redo[0].value.func.id if redo else None,
                     'same_arguments': same_args, 'returns_value': returns_v}
            shapes[meth] = (facts['recomputed_with'] is not None, plain_calls[0].value.func.id, [c.func.id for c in on])
        rep.check('C03.G', f"{meth}::infinite-result-is-recomputed-rescaled", ok, W, facts,
                  f"{meth}: the plain result must be tested with isinf; if infinite the flag is set and the value re-assigned from a rescaling kernel called "
                  f"with the same arguments, and that value is returned")
        # kernel kind agreement: tip-state method uses tip-state kernels
        want_tip = 'states' in meth
        used = [c.func.id for c in kernel_calls(fn.body)]
        rep.check('C03.G', f"{meth}::kernel-kind", all(('tip_states' in u) == want_tip for u in used), W, {'kernels': used},
                  f"{meth}: mixes tip-state and tip-partial kernels")
