"""Order kinds of event vectors: which element order a vector is in.

The coalescent densities sort the node heights (argsort + gather) and then work with two families of vectors side by side: those still in the order of the
argument ('I': node_heights, its slices, anything looked up with indices computed from it) and those in sorted order ('S': gather(x, -1, argsort(…)),
selections from sorted vectors by a sorted mask, positions taken from a sorted mask).  Element-wise operations, masked selections and scatter / index stores must
combine vectors of one family: a value computed per node in input order written to the positions of the sorted vector pairs node i with the i-th smallest height.

Kinds: 'I' input order, 'S' sorted order, 'P' a sorting permutation, 'N' no event order (parameters, grids, constants, fresh zeros), None unknown.
Only a combination of 'I' with 'S' where both are known is reported."""
from __future__ import annotations

import ast
from typing import Dict, List, Optional

from .loader import dotted_name

VIEW = ('expand', 'reshape', 'view', 'clone', 'contiguous', 'log', 'exp', 'float', 'double', 'int', 'long', 'to', 'detach', 'unsqueeze', 'squeeze', 'abs', 'neg',
        'cumsum', 'cumprod', 'type', 'expand_as', 'flip_not', 'clamp', 'clamp_min', 'clamp_max', 'log1p', 'expm1', 'sqrt', 'pow', 'reciprocal')
FRESH = ('zeros', 'ones', 'full', 'zeros_like', 'ones_like', 'full_like', 'empty', 'empty_like', 'tensor', 'arange', 'linspace', 'eye')


class Orders:
    def __init__(self, fn: ast.FunctionDef, input_params):
        self.fn = fn
        self.env: Dict[str, Optional[str]] = {p: 'I' for p in input_params}
        self.reports: List[tuple] = []
        self.decided = 0

    def name_of(self, call):
        return (dotted_name(call.func) or (call.func.attr if isinstance(call.func, ast.Attribute) else '')).split('.')[-1]

    def combine(self, node, kinds, what):
        ks = {k for k in kinds if k in ('I', 'S')}
        if ks == {'I', 'S'}:
            self.reports.append((node, what))
            return None
        if all(k is not None for k in kinds):
            self.decided += 1
        return next(iter(ks)) if ks else ('N' if all(k == 'N' for k in kinds) else None)

    def kind(self, e) -> Optional[str]:
        if isinstance(e, ast.Constant):
            return 'N'
        if isinstance(e, ast.Name):
            return self.env.get(e.id)
        if isinstance(e, ast.Attribute):
            if isinstance(e.value, ast.Name) and e.value.id == 'self':
                return 'N'
            if e.attr in ('shape', 'dtype', 'device', 'ndim'):
                return 'N'
            return self.kind(e.value)
        if isinstance(e, ast.UnaryOp):
            return self.kind(e.operand)
        if isinstance(e, (ast.Tuple, ast.List)):
            return self.combine(e, [self.kind(x) for x in e.elts], 'sequence')
        if isinstance(e, ast.BinOp):
            return self.combine(e, [self.kind(e.left), self.kind(e.right)], 'element-wise operation')
        if isinstance(e, ast.Compare):
            return self.combine(e, [self.kind(e.left)] + [self.kind(c) for c in e.comparators], 'comparison')
        if isinstance(e, ast.Subscript):
            base = self.kind(e.value)
            sl = e.slice
            # boolean-mask / index-tensor selection: the selector must be in the order of the vector
            sel = None
            if isinstance(sl, (ast.Compare, ast.Name, ast.Call, ast.BinOp, ast.UnaryOp)):
                sel = self.kind(sl)
            if isinstance(sl, ast.Tuple) and sl.elts and isinstance(sl.elts[-1], ast.Name) and self.kind(sl.elts[-1]) in ('P', 'P1'):
                # x[..., perm]: fancy indexing with one permutation for all rows
                if self.kind(sl.elts[-1]) == 'P1':
                    self.reports.append((e, 'permutation of one sample applied to every sample'))
                return 'S'
            if sel in ('P', 'P1'):
                if sel == 'P1' and base in ('I', 'S'):
                    self.reports.append((e, 'permutation of one sample applied to every sample'))
                return 'S'
            if sel in ('I', 'S') and base in ('I', 'S', 'N'):
                if base == 'N':
                    return sel          # identity positions / a table selected by an ordered mask: takes the order of the mask
                return self.combine(e, [base, sel], 'selection by a mask')
            return base
        if isinstance(e, ast.Call):
            nm = self.name_of(e)
            f = e.func
            recv = f.value if isinstance(f, ast.Attribute) and not (isinstance(f.value, ast.Name) and f.value.id in ('torch', 'math', 'np')) else None
            args = list(e.args)
            if nm in FRESH:
                return 'N'
            if nm == 'argsort':
                arg = recv if recv is not None else (args[0] if args else None)
                # argsort(x.reshape(-1, n)[0]) / argsort(x[0]): the permutation of ONE sample
                for x in (ast.walk(arg) if arg is not None else ()):
                    if isinstance(x, ast.Subscript) and isinstance(x.slice, ast.Constant) and isinstance(x.slice.value, int) and self.kind(x.value) in ('I', 'S'):
                        return 'P1'
                return 'P'
            if nm == 'sort':
                return 'SORTPAIR'
            if nm == 'gather':
                src = recv if recv is not None else (args[0] if args else None)
                idx = args[-1] if args else None
                ki = self.kind(idx) if idx is not None else None
                ks = self.kind(src) if src is not None else None
                if ki == 'P':
                    return 'S'
                if ki == 'P1':
                    self.reports.append((e, 'permutation of one sample applied to every sample'))
                    return 'S'
                if ks == 'N':
                    return ki            # table lookup: one value per index, in the order of the indices
                if ks in ('I', 'S') and ki in ('I', 'S'):
                    return self.combine(e, [ks, ki], 'gather')
                return None
            if nm in ('bucketize', 'searchsorted'):
                v = args[0] if nm == 'bucketize' else (args[1] if len(args) > 1 else None)
                return self.kind(v) if v is not None else None
            if nm in ('cat', 'stack', 'concat'):
                seq = args[0] if args else None
                if isinstance(seq, (ast.Tuple, ast.List)):
                    return self.combine(e, [self.kind(x) for x in seq.elts], 'concatenation')
                return None
            if nm in ('scatter', 'scatter_', 'scatter_add', 'index_put', 'index_copy'):
                target = recv if recv is not None else (args[0] if args else None)
                rest = args if recv is not None else args[1:]
                idx = rest[1] if len(rest) > 1 else None
                src = rest[2] if len(rest) > 2 else None
                kt = self.kind(target) if target is not None else None
                ki = self.kind(idx) if idx is not None else None
                ksr = self.kind(src) if src is not None else None
                self.combine(e, [ki, ksr], 'scatter (positions against values)')
                if ki in ('I', 'S') and kt in ('I', 'S'):
                    self.combine(e, [kt, ki], 'scatter (positions against the vector written to)')
                return kt if kt in ('I', 'S') else ki
            if nm == 'where' and len(args) == 3:
                return self.combine(e, [self.kind(a) for a in args], 'torch.where')
            if nm in ('unique', 'unique_consecutive'):
                return 'I'
            if nm in ('sum', 'mean', 'prod', 'logsumexp', 'max', 'min', 'amax', 'amin', 'any', 'all', 'item', 'dim', 'size', 'numel', 'len'):
                return 'N'
            if nm == 'nonzero':
                return self.kind(recv) if recv is not None else (self.kind(args[0]) if args else None)
            if recv is not None and nm in VIEW:
                return self.kind(recv)
            if recv is None and nm in VIEW and args:
                return self.kind(args[0])
            if recv is None and nm in ('diff',) and args:
                return self.kind(args[0])
            return None
        return None

    def assign(self, tgt, val_kind, value=None):
        if isinstance(tgt, ast.Name):
            self.env[tgt.id] = val_kind
        elif isinstance(tgt, (ast.Tuple, ast.List)) and val_kind == 'SORTPAIR' and len(tgt.elts) == 2:
            self.assign(tgt.elts[0], 'S')
            self.assign(tgt.elts[1], 'P')
        elif isinstance(tgt, (ast.Tuple, ast.List)):
            for x in tgt.elts:
                self.assign(x, val_kind if val_kind in ('I', 'S', 'N') else None)
        elif isinstance(tgt, ast.Subscript):
            # x[sel] = value: the vector written to, the selector and the value are in one order
            base = self.kind(tgt.value)
            sel = self.kind(tgt.slice) if isinstance(tgt.slice, (ast.Compare, ast.Name, ast.Call, ast.BinOp)) else None
            ks = [k for k in (base, sel, val_kind) if k in ('I', 'S')]
            if len(set(ks)) > 1:
                self.reports.append((tgt, 'indexed store'))
            elif isinstance(tgt.value, ast.Name) and base in (None, 'N') and ks:
                self.env[tgt.value.id] = ks[0]

    def run(self):
        self.block(self.fn.body)
        return self.reports

    def block(self, stmts):
        for st in stmts:
            if isinstance(st, ast.Assign):
                k = self.kind(st.value)
                for t in st.targets:
                    self.assign(t, k, st.value)
            elif isinstance(st, ast.AugAssign):
                k = self.combine(st, [self.kind(st.target), self.kind(st.value)], 'in-place operation')
                self.assign(st.target, k)
            elif isinstance(st, ast.AnnAssign) and st.value is not None:
                self.assign(st.target, self.kind(st.value))
            elif isinstance(st, (ast.If,)):
                self.kind(st.test)
                self.block(st.body)
                self.block(st.orelse)
            elif isinstance(st, (ast.For, ast.While)):
                self.block(st.body)
            elif isinstance(st, ast.With):
                self.block(st.body)
            elif isinstance(st, ast.Return) and st.value is not None:
                self.kind(st.value)
            elif isinstance(st, ast.Expr):
                self.kind(st.value)
            elif isinstance(st, ast.Try):
                self.block(st.body)
                for h in st.handlers:
                    self.block(h.body)


POSITIVE = """
def log_prob(self, node_heights):
    grid_heights = torch.cat([node_heights, self.grid], -1)
    indices = torch.argsort(grid_heights, descending=False)
    grid_heights_sorted = torch.gather(grid_heights, -1, indices)
    event_mask_sorted = torch.gather(event_mask, -1, indices)
    pop_sizes = torch.zeros_like(grid_heights)
    where = torch.bucketize(node_heights, self.grid)
    values = self.theta.gather(-1, where)
    positions = torch.arange(pop_sizes.shape[-1]).expand(shape)[event_mask_sorted != 0].reshape(values.shape)
    pop_sizes = pop_sizes.scatter(-1, positions, values)
    return pop_sizes
"""
NEGATIVE = """
def log_prob(self, node_heights):
    grid_heights = torch.cat([node_heights, self.grid], -1)
    indices = torch.argsort(grid_heights, descending=False)
    grid_heights_sorted = torch.gather(grid_heights, -1, indices)
    event_mask_sorted = torch.gather(event_mask, -1, indices)
    pop_sizes = torch.zeros_like(grid_heights)
    node_heights_sorted = grid_heights_sorted[event_mask_sorted != 0].reshape(node_heights.shape)
    where = torch.bucketize(node_heights_sorted, self.grid)
    values = self.theta.gather(-1, where)
    positions = torch.arange(pop_sizes.shape[-1]).expand(shape)[event_mask_sorted != 0].reshape(values.shape)
    pop_sizes = pop_sizes.scatter(-1, positions, values)
    return pop_sizes
"""


def self_check():
    from .loader import AnalysisError
    for text, expect in ((POSITIVE, 1), (NEGATIVE, 0)):
        fn = ast.parse(text).body[0]
        o = Orders(fn, ['node_heights'])
        o.env['event_mask'] = 'I'
        got = len(o.run())
        if got != expect:
            raise AnalysisError(f"order-kind self-check: the embedded example gives {got} reports, expected {expect}")


def check_orders(ctx, rep, rule: str, module: str, input_params=('node_heights', 'x', 'value'), floor: int = 1, only=None) -> int:
    from .loader import norm_text
    from .report import where
    self_check()
    m = ctx.prog.module(module)
    n_fn = n_dec = 0
    for cname, cnode in sorted(m.classes.items()):
        for fn in cnode.body:
            if not isinstance(fn, ast.FunctionDef):
                continue
            params = [a.arg for a in fn.args.args if a.arg in input_params]
            if not params or (only is not None and not only(cname, fn)):
                continue
            if not any(isinstance(c, ast.Call) and (dotted_name(c.func) or '').split('.')[-1] in ('argsort', 'sort') for c in ast.walk(fn)):
                continue
            n_fn += 1
            o = Orders(fn, params)
            reports = o.run()
            n_dec += o.decided
            seen = set()
            for node, what in reports:
                txt = norm_text(node)[:70]
                if txt in seen:
                    continue
                seen.add(txt)
                rep.bad(rule, f"{cname}.{fn.name}::{txt}", where(m, node), {'kind': what},
                        (f"{cname}.{fn.name}: `{txt}` reorders every sample of the batch with the sorting permutation of one sample: samples whose events are in another "
                         f"order than that sample's are evaluated with their heights out of order" if 'one sample' in what else
                         f"{cname}.{fn.name}: `{txt}` ({what}) combines a vector in the order of the argument with one in sorted order: element i of one is paired with the "
                         f"i-th smallest of the other — right only when the heights are passed already sorted"))
            if not reports:
                rep.ok(rule, f"{cname}.{fn.name}::input-order-and-sorted-order-kept-apart", where(m, fn), {'operations_with_known_orders': o.decided})
    rep.analysed[f'order_kind_functions[{rule}]'] = n_fn
    rep.analysed[f'order_kind_operations[{rule}]'] = n_dec
    if n_fn < floor:
        rep.incomplete(rule, '*', '', f"only {n_fn} sorting functions analysed (expected at least {floor})")
    return n_fn
