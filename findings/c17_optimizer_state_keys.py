"""C17.J: torch optimiser state is keyed by parameter index (int); after the JSON round trip of the checkpoint the
keys are strings and torch.optim.Optimizer.load_state_dict does not map them to parameters: Adam moments and step
counts are silently lost on restart."""
import json, torch
from torchtree.core.parameter import Parameter
from torchtree.core.model import CallableModel
from torchtree.core.parameter_encoder import ParameterEncoder
from torchtree.core.utils import TensorDecoder
from torchtree.optim.optimizer import Optimizer
class Quad(CallableModel):
    def __init__(self, i, x): super().__init__(i); self.x = x
    def _call(self, *a, **k): return -((self.x.tensor - 3.0) ** 2).sum()
    def _sample_shape(self): return torch.Size([])
    @classmethod
    def from_json(cls, d, dic): ...
def make():
    x = Parameter('x', torch.tensor([0.0, 1.0]))
    return x, Optimizer('o', [x], Quad('l', x), torch.optim.Adam([x.tensor], lr=0.1), 3, checkpoint=None)
x, opt = make()
opt.run()
state = json.loads(json.dumps(opt.state_dict(), cls=ParameterEncoder), cls=TensorDecoder)
x2, opt2 = make()
x2.tensor.requires_grad_(True)
opt2.load_state_dict(state)
st = opt2.optimizer.state
ok = x2.tensor in st and 'exp_avg' in st[x2.tensor] and float(st[x2.tensor]['step']) == 3.0
print('OK' if ok else f'FAIL optimiser state keys after restart: {[k if isinstance(k, str) else "tensor" for k in st.keys()]}')
raise SystemExit(0 if ok else 1)
