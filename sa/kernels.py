"""Fact extraction for the pruning kernels of tree_likelihood.py (shared by C01, C02, C03)."""
from __future__ import annotations

import ast
from typing import Dict, List, Optional

from .loader import Unsupported, dotted_name, norm_text

MODULE = 'torchtree.evolution.tree_likelihood'


def method_name(call: ast.Call) -> str:
    return (dotted_name(call.func) or (call.func.attr if isinstance(call.func, ast.Attribute) else '')).split('.')[-1]


def slice_elts(sub: ast.Subscript):
    sl = sub.slice
    return list(sl.elts) if isinstance(sl, ast.Tuple) else [sl]


def is_full_slice(e) -> bool:
    return isinstance(e, ast.Slice) and e.lower is None and e.upper is None and e.step is None


def const_int(e) -> Optional[int]:
    if isinstance(e, ast.Constant) and isinstance(e.value, int):
        return e.value
    if isinstance(e, ast.UnaryOp) and isinstance(e.op, ast.USub) and isinstance(e.operand, ast.Constant):
        return -e.operand.value
    return None


class Factor:
    def __init__(self):
        self.kind = None  # 'matmul' | 'gather'
        self.matrix = None
        self.c_matrix = None
        self.c_partial = None
        self.matrix_left = None
        self.transposed = False
        self.n_trailing = None
        self.gather_last = None
        self.text = ''

    def as_dict(self):
        return {k: getattr(self, k) for k in ('kind', 'matrix', 'c_matrix', 'c_partial', 'matrix_left', 'transposed', 'n_trailing', 'gather_last', 'text')}


def parse_factor(e: ast.AST, partials: str) -> Factor:
    f = Factor()
    f.text = norm_text(e)[:90]
    if isinstance(e, ast.BinOp) and isinstance(e.op, ast.MatMult):
        f.kind = 'matmul'
        l, r = e.left, e.right

        def strip(x):
            # detect transposes wrapped around an operand
            t = False
            while True:
                if isinstance(x, ast.Call) and isinstance(x.func, ast.Attribute) and x.func.attr in ('transpose', 't', 'permute', 'swapaxes'):
                    t = True
                    x = x.func.value
                elif isinstance(x, ast.Attribute) and x.attr in ('mT', 'T', 'mH'):
                    t = True
                    x = x.value
                else:
                    return x, t
        l2, tl = strip(l)
        r2, tr = strip(r)
        f.transposed = tl or tr

        def is_partial(x):
            return isinstance(x, ast.Subscript) and isinstance(x.value, ast.Name) and x.value.id == partials
        if is_partial(r2) and isinstance(l2, ast.Subscript):
            f.matrix_left = True
            m, p = l2, r2
        elif is_partial(l2) and isinstance(r2, ast.Subscript):
            f.matrix_left = False
            m, p = r2, l2
        else:
            raise Unsupported(e, 'matrix @ partial factor not understood')
        f.matrix = m.value.id if isinstance(m.value, ast.Name) else ast.unparse(m.value)
        elts = slice_elts(m)
        if not (isinstance(elts[0], ast.Constant) and elts[0].value is Ellipsis) or len(elts) < 3 or not isinstance(elts[1], ast.Name):
            raise Unsupported(m, 'matrix subscript must be [..., child, :, :(, :)]')
        f.c_matrix = elts[1].id
        f.n_trailing = len(elts) - 2
        if not all(is_full_slice(x) for x in elts[2:]):
            raise Unsupported(m, 'matrix subscript selects more than the branch')
        pe = slice_elts(p)
        if len(pe) != 1 or not isinstance(pe[0], ast.Name):
            raise Unsupported(p, 'partial subscript must be partials[child]')
        f.c_partial = pe[0].id
        return f
    while True:
        if isinstance(e, ast.Call) and isinstance(e.func, ast.Attribute) and e.func.attr in ('transpose', 't', 'permute', 'swapaxes'):
            f.transposed = True
            e = e.func.value
        elif isinstance(e, ast.Attribute) and e.attr in ('mT', 'T', 'mH'):
            f.transposed = True
            e = e.value
        else:
            break
    if isinstance(e, ast.Subscript) and isinstance(e.value, ast.Name):
        elts = slice_elts(e)
        if isinstance(elts[0], ast.Constant) and elts[0].value is Ellipsis and len(elts) >= 4 and isinstance(elts[1], ast.Name):
            last = elts[-1]
            if isinstance(last, ast.Subscript) and isinstance(last.value, ast.Name) and last.value.id == partials:
                f.kind = 'gather'
                f.matrix = e.value.id
                f.c_matrix = elts[1].id
                pe = slice_elts(last)
                f.c_partial = pe[0].id if len(pe) == 1 and isinstance(pe[0], ast.Name) else None
                f.gather_last = all(is_full_slice(x) for x in elts[2:-1])
                f.n_trailing = len(elts) - 2
                return f
            # gather on a non-last axis
            for i, x in enumerate(elts[2:], 2):
                if isinstance(x, ast.Subscript) and isinstance(x.value, ast.Name) and x.value.id == partials:
                    f.kind = 'gather'
                    f.matrix = e.value.id
                    f.c_matrix = elts[1].id
                    pe = slice_elts(x)
                    f.c_partial = pe[0].id if len(pe) == 1 and isinstance(pe[0], ast.Name) else None
                    f.gather_last = False
                    f.n_trailing = len(elts) - 2
                    return f
    raise Unsupported(e, f"factor {norm_text(e)[:50]} not understood")


class Kernel:
    def __init__(self, name, fn):
        self.name = name
        self.fn = fn
        self.params: List[str] = [a.arg for a in fn.args.args]
        self.loop: Optional[ast.For] = None
        self.node = self.left = self.right = None
        self.factors: Dict[str, List[Factor]] = {}  # 'first'/'second' -> alternatives
        self.child_of: Dict[str, str] = {}
        self.tip_guard: Dict[str, str] = {}
        self.product_ok = False
        self.scaler = None  # dict of facts or None
        self.ret = None
        self.mat_tips = None
        self.safe_guard = None
        self.problems: List[str] = []


def extract(fn: ast.FunctionDef) -> Kernel:
    k = Kernel(fn.name, fn)
    if len(k.params) < 5:
        raise Unsupported(fn, 'kernel signature not understood')
    partials, weights, post, mats, freqs = k.params[:5]
    props = k.params[5] if len(k.params) > 5 else None
    loops = [n for n in fn.body if isinstance(n, ast.For) and isinstance(n.iter, ast.Name) and n.iter.id == post]
    if len(loops) != 1 or not isinstance(loops[0].target, ast.Tuple) or len(loops[0].target.elts) != 3:
        raise Unsupported(fn, 'post-order loop `for node, left, right in post_indexing` not found')
    lp = loops[0]
    k.loop = lp
    k.node, k.left, k.right = (e.id for e in lp.target.elts)
    # local definitions inside the loop (p_left / p_right / partial), with the branch condition for tip alternatives
    local: Dict[str, List[tuple]] = {}

    def collect(stmts, cond):
        for st in stmts:
            if isinstance(st, ast.Assign) and len(st.targets) == 1 and isinstance(st.targets[0], ast.Name):
                local.setdefault(st.targets[0].id, []).append((st.value, cond))
            elif isinstance(st, ast.Assign) and isinstance(st.targets[0], ast.Tuple):
                for e in st.targets[0].elts:
                    if isinstance(e, ast.Name):
                        local.setdefault(e.id, []).append((st.value, cond))
            elif isinstance(st, ast.If):
                collect(st.body, (cond or []) + [(st.test, True)])
                collect(st.orelse, (cond or []) + [(st.test, False)])
    collect(lp.body, None)
    # the statement storing partials[node]
    stores = []
    for st in ast.walk(lp):
        if isinstance(st, ast.Assign) and isinstance(st.targets[0], ast.Subscript) and isinstance(st.targets[0].value, ast.Name) \
                and st.targets[0].value.id == partials:
            stores.append(st)
    if len(stores) != 1:
        raise Unsupported(lp, f"{len(stores)} stores to partials[node] in the loop")
    store = stores[0]
    tgt_idx = slice_elts(store.targets[0])
    if not (len(tgt_idx) == 1 and isinstance(tgt_idx[0], ast.Name) and tgt_idx[0].id == k.node):
        k.problems.append('the loop stores into partials[<something other than node>]')
    value = store.value
    # optional division by the scaler
    scaled = None
    if isinstance(value, ast.BinOp) and isinstance(value.op, ast.Div):
        scaled = value.right
        value = value.left
    if isinstance(value, ast.Name) and value.id in local and len(local[value.id]) == 1:
        prod_name = value.id
        value = local[value.id][0][0]
    else:
        prod_name = None
    if not (isinstance(value, ast.BinOp) and isinstance(value.op, ast.Mult)):
        raise Unsupported(store, 'partials[node] is not a product of two child terms')
    k.product_ok = True
    for pos, side in (('first', value.left), ('second', value.right)):
        alts = []
        if isinstance(side, ast.Name) and side.id in local:
            for v, cond in local[side.id]:
                f = parse_factor(v, partials)
                f.cond = cond
                alts.append(f)
        else:
            f = parse_factor(side, partials)
            f.cond = None
            alts.append(f)
        k.factors[pos] = alts
    # scaler facts
    if scaled is not None:
        sc = {'divides': norm_text(scaled)}
        sname = None
        for n in ast.walk(scaled):
            if isinstance(n, ast.Name):
                sname = n.id
        sc['name'] = sname
        sdefs = local.get(sname, [])
        sc['defined_once'] = len(sdefs) == 1
        if sdefs:
            v = sdefs[0][0]
            sc['definition'] = norm_text(v)[:140]
            mx = v if isinstance(v, ast.Call) and method_name(v) == 'max' else None
            sc['is_max'] = mx is not None
            if mx is not None:
                arg0 = mx.args[0] if mx.args else None
                ax = mx.args[1] if len(mx.args) > 1 else next((kw.value for kw in mx.keywords if kw.arg == 'dim'), None)
                sc['axis'] = const_int(ax) if ax is not None else None
                # flatten view(*shape[:-3], -1, *shape[-1:])
                flat = isinstance(arg0, ast.Call) and method_name(arg0) in ('view', 'reshape') and len(arg0.args) == 3 \
                    and isinstance(arg0.args[0], ast.Starred) and isinstance(arg0.args[2], ast.Starred) and const_int(arg0.args[1]) == -1
                if flat:
                    a0 = ast.unparse(arg0.args[0].value).replace(' ', '')
                    a2 = ast.unparse(arg0.args[2].value).replace(' ', '')
                    flat = a0.endswith('.shape[:-3]') and a2.endswith('.shape[-1:]')
                    sc['flattened_of'] = ast.unparse(arg0.func.value)
                sc['flattens_category_and_state'] = bool(flat)
                sc['max_of_product'] = prod_name is not None and isinstance(arg0, ast.Call) and isinstance(arg0.func, ast.Attribute) \
                    and isinstance(arg0.func.value, ast.Name) and arg0.func.value.id == prod_name
        # appended?
        appends = [c for c in ast.walk(lp) if isinstance(c, ast.Call) and isinstance(c.func, ast.Attribute) and c.func.attr == 'append'
                   and isinstance(c.func.value, ast.Name) and c.args and isinstance(c.args[0], ast.Name) and c.args[0].id == sname]
        sc['appended_to'] = appends[0].func.value.id if len(appends) == 1 else None
        if appends:
            # same block as the store (every path that divides also appends)
            def block_of(n):
                while not isinstance(n, ast.stmt):
                    n = n._parent
                return n._parent
            sc['append_same_block_as_store'] = block_of(appends[0]) is store._parent
        sc['unsqueeze_states_axis'] = isinstance(scaled, ast.Call) and method_name(scaled) == 'unsqueeze' and scaled.args and const_int(scaled.args[0]) == -2
        k.scaler = sc
    # safe-kernel guard
    if isinstance(store._parent, ast.If) and store._parent in lp.body:
        g = store._parent
        names = {n.id for n in ast.walk(g.test) if isinstance(n, ast.Name)}
        flags = [s for s in ast.walk(g.test) if isinstance(s, ast.Subscript) and isinstance(s.value, ast.Name)]
        flag_vars = {}
        for s in flags:
            idx = slice_elts(s)
            if len(idx) == 1 and isinstance(idx[0], ast.Name):
                flag_vars.setdefault(s.value.id, set()).add(idx[0].id)
        marks = [st for st in g.body if isinstance(st, ast.Assign) and isinstance(st.targets[0], ast.Subscript) and isinstance(st.value, ast.Constant)
                 and st.value.value is True]
        k.safe_guard = {'test': norm_text(g.test)[:200], 'flag_reads': {a: sorted(b) for a, b in flag_vars.items()},
                        'marks': [norm_text(st) for st in marks], 'is_or': isinstance(g.test, ast.BoolOp) and isinstance(g.test.op, ast.Or)}
    # mat_tips
    for st in fn.body:
        if isinstance(st, ast.Assign) and isinstance(st.targets[0], ast.Name) and isinstance(st.value, ast.Call) and method_name(st.value) == 'cat':
            t = st.value.args[0] if st.value.args else None
            if isinstance(t, (ast.Tuple, ast.List)) and len(t.elts) == 2:
                a, b = t.elts
                ax = st.value.args[1] if len(st.value.args) > 1 else None
                facts = {'name': st.targets[0].id, 'axis': const_int(ax) if ax is not None else None}
                facts['first_is_tip_slice_of_mats'] = isinstance(a, ast.Subscript) and isinstance(a.value, ast.Name) and a.value.id == mats
                facts['second_is_ones'] = isinstance(b, ast.Call) and method_name(b) == 'ones'
                if facts['second_is_ones'] and b.args:
                    sh = b.args[0]
                    facts['ones_shape'] = ast.unparse(sh).replace(' ', '')
                    facts['one_column'] = facts['ones_shape'].endswith('.shape[:-1]+(1,)')
                k.mat_tips = facts
    # return expression
    rets = [n for n in fn.body if isinstance(n, ast.Return)]
    if len(rets) != 1:
        raise Unsupported(fn, 'single return expected')
    # locals introduced between the loop and the return (`root_partials = partials[…]`, `log_scalers = …`) are substituted, in statement order
    import copy
    env = {}

    class _Sub(ast.NodeTransformer):
        def visit_Name(self, n):
            if isinstance(n.ctx, ast.Load) and n.id in env:
                return copy.deepcopy(env[n.id])
            return n
    after_loop = False
    for st in fn.body:
        if isinstance(st, ast.For):
            after_loop = True
        elif after_loop and isinstance(st, ast.Assign) and len(st.targets) == 1 and isinstance(st.targets[0], ast.Name) \
                and st.targets[0].id not in (partials, weights, post, freqs, props):
            env[st.targets[0].id] = _Sub().visit(copy.deepcopy(st.value))
    ret_expr = _Sub().visit(copy.deepcopy(rets[0].value)) if env else rets[0].value
    ast.copy_location(ret_expr, rets[0].value)
    for n in ast.walk(ret_expr):
        if not hasattr(n, 'lineno'):
            n.lineno, n.col_offset = rets[0].lineno, rets[0].col_offset
    k.ret = parse_return(ret_expr, partials, weights, post, freqs, props)
    return k


def parse_return(e, partials, weights, post, freqs, props) -> dict:
    out = {'text': norm_text(e)[:300]}
    if not (isinstance(e, ast.Call) and method_name(e) == 'sum'):
        raise Unsupported(e, 'return is not torch.sum(…)')
    ax = e.args[1] if len(e.args) > 1 else next((kw.value for kw in e.keywords if kw.arg == 'dim'), None)
    out['outer_axis'] = const_int(ax) if ax is not None else None
    body = e.args[0]
    outside = None
    if isinstance(body, ast.BinOp) and isinstance(body.op, ast.Add):
        # (<log-likelihoods> * weights) + <something>: a term added after the weights
        for a, b in ((body.left, body.right), (body.right, body.left)):
            if isinstance(a, ast.BinOp) and isinstance(a.op, ast.Mult) and any(isinstance(x, ast.Name) and x.id == weights for x in (a.left, a.right)):
                body, outside = a, b
                break
    if not (isinstance(body, ast.BinOp) and isinstance(body.op, ast.Mult)):
        raise Unsupported(body, 'summand is not <log-likelihoods> * weights')
    l, r = body.left, body.right
    if isinstance(r, ast.Name) and r.id == weights:
        inner = l
    elif isinstance(l, ast.Name) and l.id == weights:
        inner = r
    else:
        raise Unsupported(body, 'weights do not multiply the per-site log-likelihoods')
    out['weights_multiply_log'] = True
    scal = None
    if isinstance(inner, ast.BinOp) and isinstance(inner.op, ast.Add):
        a, b = inner.left, inner.right
        if isinstance(a, ast.Call) and method_name(a) == 'log' and not (isinstance(a.func, ast.Attribute) and isinstance(a.func.value, ast.Call) and method_name(a.func.value) == 'cat'):
            inner, scal = a, b
        else:
            inner, scal = b, a
    if not (isinstance(inner, ast.Call) and method_name(inner) == 'log' and inner.args):
        raise Unsupported(inner, 'per-site term is not torch.log(…)')
    arg = inner.args[0]
    # value-altering wrappers between the root sum and the log: X.clamp(min=…), torch.clamp(X, …), torch.max(X, eps), torch.where(X > 0, X, eps), X + eps
    altered = []
    while True:
        if isinstance(arg, ast.Call) and method_name(arg) in ('clamp', 'clamp_min', 'clip', 'clamp_', 'nan_to_num', 'abs', 'relu'):
            altered.append(method_name(arg))
            arg = arg.func.value if isinstance(arg.func, ast.Attribute) and not (isinstance(arg.func.value, ast.Name) and arg.func.value.id == 'torch') else arg.args[0]
            continue
        if isinstance(arg, ast.Call) and method_name(arg) in ('max', 'maximum', 'fmax') and len(arg.args) == 2 and isinstance(arg.func, ast.Attribute) \
                and isinstance(arg.func.value, ast.Name) and arg.func.value.id == 'torch':
            mm = [a for a in arg.args if isinstance(a, ast.BinOp) and isinstance(a.op, ast.MatMult)]
            if len(mm) == 1:
                altered.append(method_name(arg))
                arg = mm[0]
                continue
        if isinstance(arg, ast.BinOp) and isinstance(arg.op, ast.Add) and any(isinstance(a, ast.BinOp) and isinstance(a.op, ast.MatMult) for a in (arg.left, arg.right)):
            altered.append('+ ' + ast.unparse(arg.right if isinstance(arg.left, ast.BinOp) and isinstance(arg.left.op, ast.MatMult) else arg.left)[:30])
            arg = arg.left if isinstance(arg.left, ast.BinOp) and isinstance(arg.left.op, ast.MatMult) else arg.right
            continue
        break
    out['log_argument_altered'] = altered
    if not (isinstance(arg, ast.BinOp) and isinstance(arg.op, ast.MatMult)):
        raise Unsupported(arg, 'log argument is not freqs @ …')
    out['freqs_left'] = isinstance(arg.left, ast.Name) and arg.left.id == freqs
    x = arg.right
    root = None
    if isinstance(x, ast.Call) and method_name(x) == 'sum':
        ax2 = x.args[1] if len(x.args) > 1 else next((kw.value for kw in x.keywords if kw.arg == 'dim'), None)
        out['category_axis'] = const_int(ax2) if ax2 is not None else None
        prod = x.args[0]
        if isinstance(prod, ast.BinOp) and isinstance(prod.op, ast.Mult):
            sides = [prod.left, prod.right]
            out['props_weight_partials'] = any(isinstance(s, ast.Name) and s.id == props for s in sides)
            root = [s for s in sides if not (isinstance(s, ast.Name) and s.id == props)]
            root = root[0] if root else None
    else:
        out['category_axis'] = None
        out['props_weight_partials'] = None
        root = x
    # root = partials[post_indexing[-1][0]]
    ok_root = False
    if isinstance(root, ast.Subscript) and isinstance(root.value, ast.Name) and root.value.id == partials:
        idx = slice_elts(root)
        if len(idx) == 1:
            ok_root = ast.unparse(idx[0]).replace(' ', '') == f"{post}[-1][0]"
    out['root_is_last_postorder_node'] = ok_root
    if scal is not None:
        txt = ast.unparse(scal).replace(' ', '')
        out['scaler_term'] = txt
        names = [method_name(c) for c in ast.walk(scal) if isinstance(c, ast.Call)]
        out['scaler_is_sum_log_cat'] = {'cat', 'log', 'sum'} <= set(names)
        cat = [c for c in ast.walk(scal) if isinstance(c, ast.Call) and method_name(c) == 'cat']
        out['scalers_list'] = cat[0].args[0].id if cat and isinstance(cat[0].args[0], ast.Name) else None
        out['scaler_inside_weighted_sum'] = True
    else:
        out['scaler_term'] = None
    if outside is not None:
        out['scaler_term'] = ast.unparse(outside).replace(' ', '')
        out['scaler_is_sum_log_cat'] = False
        out['scaler_inside_weighted_sum'] = False
        out['term_added_after_weights'] = out['scaler_term']
    return out
