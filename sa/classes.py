"""Class table: qualified bases, C3 MRO, member resolution (methods / property
getters / setters / class-level names)."""
from __future__ import annotations

import ast
from typing import Dict, List, Optional, Tuple

from .loader import AnalysisError, Module, Program, dotted_name

# external bases that are known not to contribute instance members we care about
TRANSPARENT_EXTERNALS = {
    'abc.ABC',
    'object',
    'collections.abc.Callable',
    'typing.Generic',
    'typing.Protocol',
    'enum.Enum',
}


class ClassInfo:
    def __init__(self, qualname: str, module: Module, node: ast.ClassDef):
        self.qualname = qualname
        self.name = node.name
        self.module = module
        self.node = node
        self.bases: List[object] = []  # ClassInfo | str (external qualified name)
        self.mro: List[object] = []
        # name -> FunctionDef for plain methods; getters / setters separately
        self.methods: Dict[str, ast.FunctionDef] = {}
        self.getters: Dict[str, ast.FunctionDef] = {}
        self.setters: Dict[str, ast.FunctionDef] = {}
        self.class_attrs: Dict[str, ast.AST] = {}
        self.decorators: List[str] = []
        self._index()

    def __repr__(self):
        return f"<Class {self.qualname}>"

    def _index(self):
        for d in self.node.decorator_list:
            n = dotted_name(d.func if isinstance(d, ast.Call) else d)
            if n:
                self.decorators.append(n)
        for st in self.node.body:
            if isinstance(st, (ast.FunctionDef, ast.AsyncFunctionDef)):
                kind = 'method'
                for d in st.decorator_list:
                    dn = dotted_name(d.func if isinstance(d, ast.Call) else d) or ''
                    last = dn.split('.')[-1]
                    if dn in ('property', 'classproperty', 'functools.cached_property') or last == 'getter':
                        kind = 'getter'
                    elif last == 'setter':
                        kind = 'setter'
                    elif last == 'deleter':
                        kind = 'deleter'
                    elif last == 'overload':
                        kind = 'overload'
                if kind == 'method':
                    self.methods[st.name] = st
                elif kind == 'getter':
                    self.getters[st.name] = st
                elif kind == 'setter':
                    self.setters[st.name] = st
            elif isinstance(st, ast.Assign):
                for t in st.targets:
                    if isinstance(t, ast.Name):
                        self.class_attrs[t.id] = st.value
                    elif isinstance(t, ast.Tuple):
                        for e in t.elts:
                            if isinstance(e, ast.Name):
                                self.class_attrs[e.id] = st.value
            elif isinstance(st, ast.AnnAssign) and isinstance(st.target, ast.Name):
                self.class_attrs[st.target.id] = st.value
            elif isinstance(st, (ast.For, ast.If, ast.With)):
                # names bound in class-level control flow (datatype tables)
                for n in ast.walk(st):
                    if isinstance(n, ast.Name) and isinstance(n.ctx, ast.Store):
                        self.class_attrs.setdefault(n.id, None)

    # ------------------------------------------------------------------
    def internal_mro(self) -> List['ClassInfo']:
        return [c for c in self.mro if isinstance(c, ClassInfo)]

    def external_bases(self) -> List[str]:
        return [c for c in self.mro if isinstance(c, str)]

    def opaque_externals(self) -> List[str]:
        return [c for c in self.external_bases() if c not in TRANSPARENT_EXTERNALS]

    def has_base(self, qualname: str) -> bool:
        for c in self.mro:
            q = c.qualname if isinstance(c, ClassInfo) else c
            if q == qualname:
                return True
        return False

    def resolve(self, name: str, kind: str = 'method') -> Optional[Tuple['ClassInfo', ast.FunctionDef]]:
        """First class in the MRO that defines `name` in any form; returns the requested
        kind if that class provides it. For setters: python property objects are replaced
        as a whole, so a class that re-defines only the getter hides an inherited setter
        — except with the `@Base.prop.getter` idiom, which the repo does not use for
        setters. We therefore look for the first class that defines the name at all."""
        for c in self.internal_mro():
            table = {'method': c.methods, 'getter': c.getters, 'setter': c.setters}[kind]
            if name in table:
                return c, table[name]
            if name in c.methods or name in c.getters or name in c.setters or name in c.class_attrs:
                if kind == 'setter' and name in c.getters:
                    # `@Base.name.getter` copies the base property (keeping its setter);
                    # a plain `@property` replaces it (no setter).
                    g = c.getters[name]
                    inherits = any(
                        (dotted_name(d) or '').endswith(f'.{name}.getter') for d in g.decorator_list
                    )
                    if inherits:
                        continue
                    return None
                if kind == 'getter' and name in c.setters:
                    continue
                return None
        return None

    def defines(self, name: str) -> bool:
        for c in self.internal_mro():
            if name in c.methods or name in c.getters or name in c.setters or name in c.class_attrs:
                return True
        return False

    def is_abstract(self) -> bool:
        return bool(self.abstract_members())

    def abstract_members(self) -> List[str]:
        seen = set()
        out = []
        for c in self.internal_mro():
            names = set(c.methods) | set(c.getters) | set(c.setters) | set(c.class_attrs)
            for n in sorted(names):
                if n in seen:
                    continue
                seen.add(n)
                fns = [t[n] for t in (c.methods, c.getters, c.setters) if n in t]
                for fn in fns:
                    if any(
                        (dotted_name(d) or '').split('.')[-1] == 'abstractmethod'
                        for d in fn.decorator_list
                    ):
                        out.append(n)
                        break
        return out

    def key(self) -> str:
        return self.qualname


def _c3_merge(seqs: List[List[object]]) -> List[object]:
    result = []
    seqs = [list(s) for s in seqs if s]
    while seqs:
        for s in seqs:
            cand = s[0]
            if not any(cand in t[1:] for t in seqs):
                break
        else:
            raise AnalysisError("inconsistent MRO")
        result.append(cand)
        seqs = [[x for x in s if x is not cand and x != cand] for s in seqs]
        seqs = [s for s in seqs if s]
    return result


class ClassTable:
    def __init__(self, prog: Program):
        self.prog = prog
        self.classes: Dict[str, ClassInfo] = {}
        for m in prog.modules.values():
            for name, node in m.classes.items():
                q = f"{m.name}.{name}"
                self.classes[q] = ClassInfo(q, m, node)
                # nested classes (one level)
                for st in node.body:
                    if isinstance(st, ast.ClassDef):
                        q2 = f"{q}.{st.name}"
                        self.classes[q2] = ClassInfo(q2, m, st)
        for c in self.classes.values():
            c.bases = [self._resolve_base(c, b) for b in c.node.bases]
        self._mro_cache: Dict[str, List[object]] = {}
        for c in self.classes.values():
            c.mro = self._mro(c)

    def _resolve_base(self, c: ClassInfo, b: ast.AST):
        if isinstance(b, ast.Subscript):  # Generic[T]
            b = b.value
        dn = dotted_name(b)
        if dn is None:
            return f"<expr:{ast.unparse(b)}>"
        q = self.prog.resolve_name(c.module, dn)
        r = self.prog.resolve(q)
        if r and r[0] == 'class':
            return self.classes[f"{r[1].name}.{r[2].name}"]
        return q

    def _mro(self, c: ClassInfo) -> List[object]:
        if c.qualname in self._mro_cache:
            return self._mro_cache[c.qualname]
        self._mro_cache[c.qualname] = [c]  # cycle guard
        seqs = []
        for b in c.bases:
            if isinstance(b, ClassInfo):
                seqs.append(list(self._mro(b)))
            else:
                seqs.append([b])
        seqs.append(list(c.bases))
        mro = [c] + _c3_merge(seqs)
        self._mro_cache[c.qualname] = mro
        return mro

    # ------------------------------------------------------------------
    def get(self, qualname: str) -> ClassInfo:
        if qualname not in self.classes:
            raise AnalysisError(f"class {qualname} not found")
        return self.classes[qualname]

    def find(self, qualname: str) -> Optional[ClassInfo]:
        return self.classes.get(qualname)

    def by_name(self, name: str) -> List[ClassInfo]:
        return [c for c in self.classes.values() if c.name == name]

    def subclasses(self, qualname: str, strict=False) -> List[ClassInfo]:
        out = []
        for c in self.classes.values():
            if c.has_base(qualname) and not (strict and c.qualname == qualname):
                out.append(c)
        return sorted(out, key=lambda c: c.qualname)

    def resolve_class_expr(self, module: Module, expr: ast.AST) -> Optional[ClassInfo]:
        dn = dotted_name(expr)
        if dn is None:
            return None
        q = self.prog.resolve_name(module, dn)
        r = self.prog.resolve(q)
        if r and r[0] == 'class':
            return self.classes.get(f"{r[1].name}.{r[2].name}")
        return None

    def registered(self) -> Dict[str, ClassInfo]:
        """name -> class for every @register_class class (short type names)."""
        out = {}
        for c in self.classes.values():
            if any(d.split('.')[-1] == 'register_class' for d in c.decorators):
                out[c.name] = c
        return out


def function_of(cls: ClassInfo, name: str) -> ast.FunctionDef:
    r = cls.resolve(name)
    if r is None:
        raise AnalysisError(f"{cls.qualname}.{name} not found")
    return r[1]
