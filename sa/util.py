"""Small shared helpers over the parsed program."""
from __future__ import annotations

import ast
from typing import Dict, List, Optional, Tuple

from .loader import Unsupported, dotted_name


def const_of(e) -> Optional[object]:
    if isinstance(e, ast.Constant) and isinstance(e.value, bool):
        return e.value
    return None


def find_calls(ctx, target_module: str, fn_name: str):
    """all call sites `fn_name(...)` resolving to target_module.fn_name."""
    out = []
    for m in ctx.prog.modules.values():
        for node in ast.walk(m.tree):
            if isinstance(node, ast.Call):
                dn = dotted_name(node.func)
                if not dn:
                    continue
                q = ctx.prog.resolve_name(m, dn)
                r = ctx.prog.resolve(q)
                if r and r[0] == 'function' and r[1].name == target_module and r[2].name == fn_name:
                    out.append((m, node))
    return out


def enclosing_function(node):
    n = node
    while n is not None and not isinstance(n, (ast.FunctionDef, ast.AsyncFunctionDef)):
        n = getattr(n, '_parent', None)
    return n


def enclosing_class(node):
    n = node
    while n is not None and not isinstance(n, ast.ClassDef):
        n = getattr(n, '_parent', None)
    return n


def bind_args(fn: ast.FunctionDef, call: ast.Call, skip_self=False) -> Dict[str, ast.AST]:
    params = [a.arg for a in fn.args.args]
    if skip_self and params and params[0] in ('self', 'cls'):
        params = params[1:]
    bound: Dict[str, ast.AST] = {}
    for p, a in zip(params, call.args):
        if isinstance(a, ast.Starred):
            raise Unsupported(call, 'starred argument')
        bound[p] = a
    for kw in call.keywords:
        if kw.arg is None:
            raise Unsupported(call, '** argument')
        bound[kw.arg] = kw.value
    return bound


def defaults_of(fn: ast.FunctionDef) -> Dict[str, ast.AST]:
    args = fn.args.args
    d = fn.args.defaults
    out = {}
    for a, dv in zip(args[len(args) - len(d):], d):
        out[a.arg] = dv
    for a, dv in zip(fn.args.kwonlyargs, fn.args.kw_defaults):
        if dv is not None:
            out[a.arg] = dv
    return out




def local_assignments(fn) -> Dict[str, List[ast.AST]]:
    """local name -> value expressions assigned to it anywhere in fn (tuple targets map every
    element to the whole right-hand side; augmented assignments and subscript stores count)."""
    defs: Dict[str, List[ast.AST]] = {}
    for st in ast.walk(fn):
        if isinstance(st, ast.Assign):
            for t in st.targets:
                for e in (t.elts if isinstance(t, (ast.Tuple, ast.List)) else [t]):
                    base = e
                    while isinstance(base, (ast.Subscript, ast.Starred)):
                        base = base.value
                    if isinstance(base, ast.Name):
                        defs.setdefault(base.id, []).append(st.value)
        elif isinstance(st, ast.AugAssign):
            base = st.target
            while isinstance(base, ast.Subscript):
                base = base.value
            if isinstance(base, ast.Name):
                defs.setdefault(base.id, []).append(st.value)
        elif isinstance(st, (ast.For, ast.comprehension)):
            for e in ast.walk(st.target):
                if isinstance(e, ast.Name):
                    defs.setdefault(e.id, []).append(st.iter)
        elif isinstance(st, ast.With):
            for it in st.items:
                if it.optional_vars is not None and isinstance(it.optional_vars, ast.Name):
                    defs.setdefault(it.optional_vars.id, []).append(it.context_expr)
    return defs


def backward_slice(expr: ast.AST, defs: Dict[str, List[ast.AST]], _seen=None) -> List[ast.AST]:
    """expr plus the defining expressions of every local name it (transitively) mentions."""
    _seen = _seen if _seen is not None else set()
    out = [expr]
    for n in ast.walk(expr):
        if isinstance(n, ast.Name) and n.id in defs and n.id not in _seen:
            _seen.add(n.id)
            for v in defs[n.id]:
                out += backward_slice(v, defs, _seen)
    return out


def slice_mentions(expr, defs, pred) -> bool:
    return any(pred(n) for e in backward_slice(expr, defs) for n in ast.walk(e))


def method_calls(node, attr: str):
    return [n for n in ast.walk(node) if isinstance(n, ast.Call) and isinstance(n.func, ast.Attribute) and n.func.attr == attr]


def linear_in(e, symbols, defs=None, odd=None, _depth=0):
    """value of an integer expression as a Fraction-linear form {symbol: coefficient, 1: constant} over the given symbol texts (source text of an expression -> symbol name);
    local names are followed through `defs` (single definitions only).  `//`, `int(x / 2)` and `/` by a constant are exact divisions, with the floor applied to the constant
    part when a symbol listed in `odd` (known to be odd) makes the dividend's parity known.  None when the expression leaves this vocabulary."""
    from fractions import Fraction
    import math
    if _depth > 8:
        return None
    txt = ast.unparse(e)
    if txt in symbols:
        return {symbols[txt]: Fraction(1)}
    if isinstance(e, ast.Constant) and isinstance(e.value, (int, float)) and not isinstance(e.value, bool) and float(e.value) == int(e.value):
        return {1: Fraction(int(e.value))}
    if isinstance(e, ast.Name) and defs is not None and len(defs.get(e.id, [])) == 1:
        return linear_in(defs[e.id][0], symbols, defs, odd, _depth + 1)
    if isinstance(e, ast.UnaryOp) and isinstance(e.op, ast.USub):
        v = linear_in(e.operand, symbols, defs, odd, _depth + 1)
        return None if v is None else {k: -c for k, c in v.items()}
    if isinstance(e, ast.Call) and isinstance(e.func, ast.Name) and e.func.id in ('int', 'float') and len(e.args) == 1:
        v = linear_in(e.args[0], symbols, defs, odd, _depth + 1)
        return _floor_form(v, odd) if e.func.id == 'int' else v
    if isinstance(e, ast.Call) and ast.unparse(e.func) == 'math.floor' and len(e.args) == 1:
        return _floor_form(linear_in(e.args[0], symbols, defs, odd, _depth + 1), odd)
    if isinstance(e, ast.BinOp):
        l, r = linear_in(e.left, symbols, defs, odd, _depth + 1), linear_in(e.right, symbols, defs, odd, _depth + 1)
        if l is None or r is None:
            return None
        if isinstance(e.op, (ast.Add, ast.Sub)):
            sg = 1 if isinstance(e.op, ast.Add) else -1
            out = dict(l)
            for k, c in r.items():
                out[k] = out.get(k, Fraction(0)) + sg * c
            return {k: c for k, c in out.items() if c != 0 or k == 1}
        const = lambda v: v.get(1, Fraction(0)) if set(v) <= {1} else None
        if isinstance(e.op, ast.Mult):
            for a, b in ((l, r), (r, l)):
                if const(a) is not None:
                    return {k: c * const(a) for k, c in b.items()}
            return None
        if isinstance(e.op, (ast.Div, ast.FloorDiv)) and const(r) not in (None, 0):
            v = {k: c / const(r) for k, c in l.items()}
            return _floor_form(v, odd) if isinstance(e.op, ast.FloorDiv) else v
    return None


def _floor_form(v, odd):
    """floor of a linear form whose symbols are odd integers: a·n + b with n odd is (a·(n − 1) + a + b); the floor acts on the fractional part that is left when every
    coefficient times an odd number has a known remainder — decided for coefficients that are multiples of 1/2"""
    from fractions import Fraction
    import math
    if v is None:
        return None
    syms = [k for k in v if k != 1]
    if all(c.denominator == 1 for c in v.values()):
        return v
    if not syms:
        return {1: Fraction(math.floor(v.get(1, Fraction(0))))}
    if odd is None or any(k not in odd for k in syms) or any((2 * c).denominator != 1 for c in v.values()):
        return None
    # n = 2t + 1: a·n + b = 2a·t + (a + b) with 2a integral; floor acts on (a + b) only
    rest = sum((v[k] for k in syms), Fraction(0)) + v.get(1, Fraction(0))
    fl = Fraction(math.floor(rest))
    out = {k: v[k] for k in syms}
    out[1] = v.get(1, Fraction(0)) - (rest - fl)
    return out
