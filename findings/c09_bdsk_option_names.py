"""C09.O: BDSKModel.from_json filled the constructor option removal_probability from data['relative_times']:
`relative_times: true` made the model crash on evaluation (True has no .tensor) and a `removal_probability`
given in the specification was silently ignored."""
import torch
from torchtree.core.utils import process_object
import torchtree.evolution.tree_model, torchtree.evolution.taxa, torchtree.evolution.bdsk
def spec(**extra):
    d = {'id': 'bdsk', 'type': 'BDSKModel',
         'tree_model': {'id': 'tt', 'type': 'TimeTreeModel', 'newick': '((A:1,B:1.5):1,C:2);',
                        'taxa': {'id': 'taxa', 'type': 'Taxa', 'taxa': [{'id': t, 'type': 'Taxon', 'attributes': {'date': v}} for t, v in (('A', 0.5), ('B', 0.0), ('C', 0.0))]},
                        'internal_heights': {'id': 'h', 'type': 'Parameter', 'tensor': [1.5, 2.5]}},
         'R': {'id': 'R', 'type': 'Parameter', 'tensor': [1.5, 1.2]}, 'delta': {'id': 'delta', 'type': 'Parameter', 'tensor': [1.0, 1.1]},
         's': {'id': 's', 'type': 'Parameter', 'tensor': [0.3, 0.4]}, 'origin': {'id': 'o', 'type': 'Parameter', 'tensor': [3.0]},
         'times': {'id': 'times', 'type': 'Parameter', 'tensor': [0.0, 0.5]}}
    d.update(extra)
    return d
bad = 0
try:
    m = process_object(spec(relative_times=True), {})
    v = m()
    print('relative_times=True evaluates:', v)
except Exception as e:
    print('FAIL relative_times=True:', type(e).__name__, e); bad += 1
one = dict(R={'id': 'R', 'type': 'Parameter', 'tensor': [1.5]}, delta={'id': 'delta', 'type': 'Parameter', 'tensor': [1.0]},
           s={'id': 's', 'type': 'Parameter', 'tensor': [0.3]})
def one_epoch(**extra):
    d = spec(**one, **extra); del d['times']; return d
a = process_object(one_epoch(), {})()
b = process_object(one_epoch(removal_probability={'id': 'r', 'type': 'Parameter', 'tensor': [0.5]}), {})()
if torch.allclose(a, b):
    print('FAIL removal_probability option has no effect:', a, b); bad += 1
else:
    print('removal_probability changes the density:', a, b)
print('OK' if not bad else 'FAIL')
raise SystemExit(1 if bad else 0)
