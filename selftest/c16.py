from sa.selftest import Mut

INT = 'torchtree/inference/hmc/integrator.py'
HOP = 'torchtree/inference/hmc/operator.py'
HAM = 'torchtree/inference/hmc/hamiltonian.py'
C = 'LeapfrogIntegrator.__call__'

CORPUS = [
    Mut('c16-first-half-full', INT, C, 'momentum = momentum - self.step_size / 2.0 * dU', 'momentum = momentum - self.step_size * dU',
        expect=[('C16.P', 'momentum::steps=1')]),
    Mut('c16-last-half-missing', INT, C, 'momentum += self.step_size / 2 * dU', 'pass', expect=[('C16.P', 'momentum::steps=2')]),
    Mut('c16-last-half-sign', INT, C, 'momentum += self.step_size / 2 * dU', 'momentum -= self.step_size / 2 * dU', expect=[('C16.P', 'momentum::steps=1')]),
    Mut('c16-gradient-sign', INT, C, 'dU = -torch.cat([parameter.grad for parameter in parameters], -1)',
        'dU = torch.cat([parameter.grad for parameter in parameters], -1)', nth=0, expect=[('C16.P', 'momentum')]),
    Mut('c16-position-half', INT, C, 'params = params + self.step_size * inverse_mass_matrix * momentum',
        'params = params + self.step_size / 2 * inverse_mass_matrix * momentum', expect=[('C16.P', 'position')]),
    Mut('c16-dense-no-minv', INT, C, 'params = params + self.step_size * (inverse_mass_matrix @ momentum)', 'params = params + self.step_size * momentum',
        expect=[('C16.G', 'fresh-gradients')]),
    Mut('c16-momentum-before-position', INT, C, 'set_tensor(parameters, params.detach())', 'pass', expect=[('C16.G', 'fresh-gradients'), ('C16.H', 'gradient-at-current-position')]),
    Mut('c16-stale-gradient', INT, C, 'momentum -= self.step_size * dU', 'momentum -= self.step_size * dU\nmomentum -= 0.0 * dU', benign=True),
    Mut('c16-position-uses-gradient', INT, C, 'params = params + self.step_size * inverse_mass_matrix * momentum',
        'params = params + self.step_size * inverse_mass_matrix * (momentum - self.step_size / 2 * dU)', expect=[('C16.P', 'position')]),
    Mut('c16-raise-runtimeerror', INT, C, "raise ValueError('potential energy is NAN')", "raise RuntimeError('potential energy is NAN')", nth=1,
        expect=[('C16.G', 'failures-raise-what-the-operator-catches')]),
    Mut('c16-set_tensor-no-advance', INT, 'set_tensor', 'start += parameter.shape[-1]', 'pass', expect=[('C16.G', 'set_tensor')]),
    Mut('c16-set_tensor-not-leaf', INT, 'set_tensor', 'parameter.tensor = tensor[..., start:start + parameter.shape[-1]].requires_grad_()',
        'parameter.tensor = tensor[..., start:start + parameter.shape[-1]]', expect=[('C16.G', 'set_tensor')]),
    Mut('c16-hastings-swapped', HOP, 'HMCOperator._step', 'return kinetic_energy0 - kinetic_energy', 'return kinetic_energy - kinetic_energy0',
        expect=[('C16.K', 'returns-K0-minus-K1')]),
    Mut('c16-hastings-hamiltonian', HOP, 'HMCOperator._step', 'return kinetic_energy0 - kinetic_energy', 'return ham0 - ham',
        expect=[('C16.K', 'returns-K0-minus-K1')]),
    Mut('c16-k1-with-old-momentum', HOP, 'HMCOperator._step', 'momentum = self._integrator(self._hamiltonian.joint, self.parameters, momentum, self.inverse_mass_matrix)',
        'new_momentum = self._integrator(self._hamiltonian.joint, self.parameters, momentum, self.inverse_mass_matrix)',
        expect=[('C16.K', 'kinetic-energies-bracket-the-integrator')]),
    Mut('c16-k0-mass-matrix', HOP, 'HMCOperator._step', 'kinetic_energy0 = self._hamiltonian.kinetic_energy(momentum, self.inverse_mass_matrix)',
        'kinetic_energy0 = self._hamiltonian.kinetic_energy(momentum, self.mass_matrix)', expect=[('C16.K', 'kinetic-energies-bracket-the-integrator')]),
    Mut('c16-kinetic-no-half', HAM, 'Hamiltonian.kinetic_energy', 'kinetic_energy = torch.dot(momentum, inverse_mass_matrix @ momentum) * 0.5',
        'kinetic_energy = torch.dot(momentum, inverse_mass_matrix @ momentum)', expect=[('C16.K', 'kinetic_energy')]),
    Mut('c16-sample-variance', HAM, 'Hamiltonian.sample_momentum', 'momentum = Normal(torch.zeros_like(mass_matrix), mass_matrix.sqrt()).sample()',
        'momentum = Normal(torch.zeros_like(mass_matrix), mass_matrix).sample()', expect=[('C16.K', 'sample_momentum')]),
    Mut('c16-sample-precision', HAM, 'Hamiltonian.sample_momentum',
        'momentum = MultivariateNormal(torch.zeros(mass_matrix.shape[0], dtype=mass_matrix.dtype, device=mass_matrix.device), covariance_matrix=mass_matrix).sample()',
        'momentum = MultivariateNormal(torch.zeros(mass_matrix.shape[0], dtype=mass_matrix.dtype, device=mass_matrix.device), precision_matrix=mass_matrix).sample()',
        expect=[('C16.K', 'sample_momentum')]),
    Mut('c16-potential-sign', HAM, 'Hamiltonian.potential_energy', 'potential_energy = -self.joint()', 'potential_energy = self.joint()', expect=[('C16.K', 'potential_energy')]),
    # benign
    Mut('c16-benign-reassociate', INT, C, 'momentum = momentum - self.step_size / 2.0 * dU', 'momentum = momentum - 0.5 * self.step_size * dU', benign=True),
    Mut('c16-benign-inplace', INT, C, 'params = params + self.step_size * inverse_mass_matrix * momentum', 'params = params + inverse_mass_matrix * momentum * self.step_size', benign=True),
    Mut('c16-divergent-trajectories-redrawn', 'torchtree/inference/hmc/operator.py', '', "                ham = potential_energy + kinetic_energy\n", "                ham = potential_energy + kinetic_energy\n                if ham - ham0 > self._divergence_threshold:\n                    raise ValueError('divergent trajectory')\n",
        expect=[('C16.K', 'integrated-proposals-always-reach-the-acceptance-test')], mode='text'),
    Mut('c16-benign-divergence-logged-inside-the-retry-block', 'torchtree/inference/hmc/operator.py', '', "                ham = potential_energy + kinetic_energy\n", "                ham = potential_energy + kinetic_energy\n                if ham - ham0 > self._divergence_threshold:\n                    print('divergence')\n",
        benign=True, mode='text'),
    Mut('c16-default-mass-matrix-per-parameter-object', 'torchtree/inference/hmc/operator.py', '', "        self._mass_matrix = mass_matrix\n", "        if mass_matrix is None:\n            mass_matrix = Parameter(None, torch.ones(len(parameters)))\n        self._mass_matrix = mass_matrix\n",
        expect=[('C16.K', 'size-from-the-number-of-parameter-objects')], mode='text'),
]
CORPUS = [m for m in CORPUS if m.id != 'c16-stale-gradient']
CORPUS += [
    Mut('c16-cholesky-factor-kept-under-its-shape', 'torchtree/inference/hmc/hamiltonian.py', '', "                covariance_matrix=mass_matrix,\n            ).sample()\n        return momentum\n",
        "                scale_tril=self._cholesky(mass_matrix),\n            ).sample()\n        return momentum\n\n    def _cholesky(self, mass_matrix):\n        if self._scale_tril is None or self._scale_tril.shape != mass_matrix.shape:\n            self._scale_tril = torch.linalg.cholesky(mass_matrix)\n        return self._scale_tril\n",
        expect=[('C16.K', 'memo::torchtree.inference.hmc.hamiltonian.Hamiltonian._cholesky::self._scale_tril')], mode='text',
        more=[dict(scope='', old="        self.joint = joint\n", new="        self.joint = joint\n        self._scale_tril = None\n", mode='text')],
        note='after an adaptation step the momenta are still drawn with the factor of the old mass matrix'),
    Mut('c16-benign-momentum-drawn-with-the-cholesky-factor', 'torchtree/inference/hmc/hamiltonian.py', '', "                covariance_matrix=mass_matrix,\n", "                scale_tril=torch.linalg.cholesky(mass_matrix),\n", benign=True, mode='text'),
    Mut('c16-momentum-drawn-with-the-matrix-as-its-own-factor', 'torchtree/inference/hmc/hamiltonian.py', '', "                covariance_matrix=mass_matrix,\n", "                scale_tril=mass_matrix,\n",
        expect=[('C16.K', 'Hamiltonian.sample_momentum::N(0,M)')], mode='text'),
    Mut('c16-hamiltonian-served-from-the-cache', 'torchtree/inference/hmc/hamiltonian.py', '', "    def __call__(self, *args, **kwargs) -> Tensor:\n        # the value depends on the momentum (and mass matrix) given by the caller:\n        # it cannot be served from the cache of CallableModel\n        return self._call(*args, **kwargs)\n\n", "",
        expect=[('C16.K', 'call-arguments::torchtree.inference.hmc.hamiltonian.Hamiltonian')], mode='text'),
]
CORPUS += [
    Mut('c16-benign-kinetic-energy-by-einsum', 'torchtree/inference/hmc/hamiltonian.py', 'Hamiltonian.kinetic_energy', 'kinetic_energy = torch.dot(momentum, inverse_mass_matrix @ momentum) * 0.5',
        'kinetic_energy = torch.einsum("...i,ij,...j->...", momentum, inverse_mass_matrix, momentum) * 0.5', benign=True),
    Mut('c16-kinetic-energy-einsum-contracts-one-index-twice', 'torchtree/inference/hmc/hamiltonian.py', 'Hamiltonian.kinetic_energy', 'kinetic_energy = torch.dot(momentum, inverse_mass_matrix @ momentum) * 0.5',
        'kinetic_energy = torch.einsum("...i,ij,...i->...", momentum, inverse_mass_matrix, momentum) * 0.5', expect=[('C16.K', 'Hamiltonian.kinetic_energy::half-p-Minv-p')]),
]
CORPUS += [
    Mut('c16-step-size-search-inside-the-first-proposal', 'torchtree/inference/hmc/operator.py', '', "        max_trials = 10\n        trial = 0\n",
        "        if self._accept + self._reject == 0:\n            find_reasonable_step_size(self._integrator, self.parameters, self._hamiltonian, self.mass_matrix, self.inverse_mass_matrix)\n"
        "        max_trials = 10\n        trial = 0\n", mode='text', expect=[('C16.K', 'HMCOperator._step::one-trajectory-per-proposal')]),
    Mut('c16-benign-step-size-reported-inside-the-proposal', 'torchtree/inference/hmc/operator.py', '', "        max_trials = 10\n        trial = 0\n",
        "        if self._accept + self._reject == 0:\n            print(f'Step size: {self.id} = {self._integrator.step_size}')\n        max_trials = 10\n        trial = 0\n", mode='text', benign=True),
]
CORPUS += [
    Mut('c16-momentum-mixed-after-the-starting-energy', 'torchtree/inference/hmc/operator.py', '', "                ham0 = potential_energy0 + kinetic_energy0\n",
        "                ham0 = potential_energy0 + kinetic_energy0\n                if getattr(self, '_previous_momentum', None) is not None:\n                    momentum = 0.5 * self._previous_momentum + math.sqrt(0.75) * momentum\n",
        mode='text', expect=[('C16.K', 'HMCOperator._step::kinetic-energies-bracket-the-integrator')]),
    Mut('c16-benign-momentum-mixed-before-the-starting-energy', 'torchtree/inference/hmc/operator.py', '', "            momentum = self._hamiltonian.sample_momentum(self.mass_matrix)\n            try:\n",
        "            momentum = self._hamiltonian.sample_momentum(self.mass_matrix)\n            if getattr(self, '_previous_momentum', None) is not None:\n                momentum = 0.5 * self._previous_momentum + math.sqrt(0.75) * momentum\n            try:\n",
        mode='text', benign=True),
]
CORPUS += [
    Mut('c16-first-half-kick-in-place', 'torchtree/inference/hmc/integrator.py', '', "        momentum = momentum - self.step_size / 2.0 * dU\n", "        momentum -= self.step_size / 2.0 * dU\n", mode='text',
        expect=[('C16.P', 'LeapfrogIntegrator.__call__::momentum-promoted-before-in-place-kicks')]),
    Mut('c16-benign-every-kick-out-of-place', 'torchtree/inference/hmc/integrator.py', '', "            momentum -= self.step_size * dU\n", "            momentum = momentum - self.step_size * dU\n", mode='text', benign=True),
]
