#!/venv/bin/python
"""Apply a seeded change to /repo, run the property's check (and optionally its demo), undo.

usage: run_seeded.py <seed-dir> <PROP> [--demo] [--all-props]
The seed dir holds patch.diff (+ demo.py).  /repo is restored afterwards in every case."""
import json, os, subprocess, sys

HERE = os.path.dirname(os.path.dirname(os.path.abspath(__file__)))
REPO = '/repo'


def sh(cmd, **kw):
    return subprocess.run(cmd, shell=True, capture_output=True, text=True, **kw)


def main():
    seed, prop = sys.argv[1], sys.argv[2]
    demo = '--demo' in sys.argv
    props = [prop] if '--all-props' not in sys.argv else [f"C{i:02d}" for i in range(1, 21)]
    patch = os.path.join(seed, 'patch.diff')
    st = sh(f"git -C {REPO} status --porcelain")
    if st.stdout.strip():
        print('REPO NOT CLEAN, refusing'); return 2
    res = {'seed': seed, 'property': prop}
    if demo and os.path.exists(os.path.join(seed, 'demo.py')):
        r = sh(f"cd {seed} && PYTHONPATH={REPO} /venv/bin/python demo.py")
        res['demo_clean_exit'] = r.returncode
    a = sh(f"git -C {REPO} apply {patch}")
    if a.returncode != 0:
        print('PATCH DOES NOT APPLY', a.stderr[:300]); return 2
    try:
        if demo and os.path.exists(os.path.join(seed, 'demo.py')):
            r = sh(f"cd {seed} && PYTHONPATH={REPO} /venv/bin/python demo.py")
            res['demo_patched_exit'] = r.returncode
            res['demo_patched_tail'] = (r.stdout + r.stderr)[-300:]
        for p in props:
            r = sh(f"/venv/bin/python {HERE}/check.py {p} --no-evidence")
            lines = [l for l in r.stdout.splitlines() if l.startswith('  ') or 'ANALYSIS' in l]
            res.setdefault('checks', {})[p] = {'exit': r.returncode, 'reports': [l.strip()[:260] for l in lines][:6]}
    finally:
        sh(f"git -C {REPO} apply -R {patch}")
        sh(f"git -C {REPO} status --porcelain")
    print(json.dumps(res, indent=1))
    return 0


if __name__ == '__main__':
    sys.exit(main())
