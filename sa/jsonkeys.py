"""Reader side of the JSON protocol: which keys a `from_json` dereferences on every path to a
normal return (mandatory keys), which keys it may read at all, and which keys flow to
`process_object*` (reference-typed keys)."""
from __future__ import annotations

import ast
from typing import Dict, List, Optional, Set, Tuple

from .cfg import CFG, own_nodes
from .classes import ClassInfo, ClassTable
from .loader import Unsupported, dotted_name

PROCESS_FUNCS = ('process_object', 'process_objects', 'process_object_with_key', 'extract_tensors_and_parameters')


def const_key(ctx, module, e: ast.AST) -> Optional[str]:
    """constant value of a key expression: 'k', X.tag (class attribute _tag), module constants."""
    if isinstance(e, ast.Constant) and isinstance(e.value, str):
        return e.value
    if isinstance(e, ast.Attribute) and e.attr == 'tag':
        ci = ctx.classes.resolve_class_expr(module, e.value)
        if ci is not None:
            for c in ci.internal_mro():
                v = c.class_attrs.get('_tag')
                if isinstance(v, ast.Constant) and isinstance(v.value, str):
                    return v.value
                if v is not None:
                    return None
    return None


class ReaderInfo:
    def __init__(self):
        self.mandatory: Set[str] = set()
        self.may: Set[str] = set()
        self.ref_keys: Set[str] = set()  # keys whose value goes to process_object*
        self.open = False  # iterates over data / passes data on to something opaque
        self.helper_calls: List[str] = []


def _data_param(fn: ast.FunctionDef) -> Optional[str]:
    args = [a.arg for a in fn.args.args]
    if args and args[0] in ('cls', 'self'):
        args = args[1:]
    return args[0] if args else None


def reader_info(ctx, cls: ClassInfo, fn: ast.FunctionDef, module=None, data_name: Optional[str] = None, depth=0) -> ReaderInfo:
    module = module or cls.module
    info = ReaderInfo()
    data = data_name or _data_param(fn)
    if data is None:
        raise Unsupported(fn, 'from_json without data parameter')
    cfg = CFG(fn)
    callee_cache: Dict[int, Optional[ReaderInfo]] = {}

    def is_data_sub(n) -> Optional[str]:
        if isinstance(n, ast.Subscript) and isinstance(n.value, ast.Name) and n.value.id == data and isinstance(n.ctx, ast.Load):
            return const_key(ctx, module, n.slice)
        return None

    def callee(call: ast.Call) -> Optional[ReaderInfo]:
        """helper called with the whole data dict: ClassName._helper(data, dic) / cls._helper(data, dic) / module function."""
        if id(call) in callee_cache:
            return callee_cache[id(call)]
        res = None
        passes = [i for i, a in enumerate(call.args) if isinstance(a, ast.Name) and a.id == data]
        if passes and depth < 3:
            target = None
            f = call.func
            if isinstance(f, ast.Attribute):
                if isinstance(f.value, ast.Name) and f.value.id in ('cls', 'self'):
                    r = cls.resolve(f.attr)
                    if r:
                        target = (r[0], r[1], r[0].module)
                elif isinstance(f.value, ast.Call) and isinstance(f.value.func, ast.Name) and f.value.func.id == 'super':
                    mro = cls.internal_mro()
                    for c in mro[1:]:
                        if f.attr in c.methods:
                            target = (c, c.methods[f.attr], c.module)
                            break
                else:
                    ci = ctx.classes.resolve_class_expr(module, f.value)
                    if ci is not None:
                        r = ci.resolve(f.attr)
                        if r:
                            target = (r[0], r[1], r[0].module)
            elif isinstance(f, ast.Name):
                q = ctx.prog.resolve_name(module, f.id)
                r = ctx.prog.resolve(q)
                if r and r[0] == 'function' and f.id not in PROCESS_FUNCS:
                    target = (cls, r[2], r[1])
            if target is not None:
                tfn = target[1]
                params = [a.arg for a in tfn.args.args]
                if params and params[0] in ('cls', 'self') and isinstance(f, ast.Attribute):
                    params = params[1:]
                idx = passes[0]
                if idx < len(params):
                    try:
                        res = reader_info(ctx, target[0], tfn, target[2], params[idx], depth + 1)
                        info.helper_calls.append(tfn.name)
                    except Unsupported:
                        res = None
        callee_cache[id(call)] = res
        return res

    def conditional(n, stop) -> bool:
        """n is evaluated only conditionally inside its statement (short-circuit operand,
        conditional-expression branch, comprehension element)."""
        p = getattr(n, '_parent', None)
        child = n
        while p is not None and p is not stop and not isinstance(p, ast.stmt):
            if isinstance(p, ast.BoolOp) and p.values and p.values[0] is not child:
                return True
            if isinstance(p, ast.IfExp) and child is not p.test:
                return True
            if isinstance(p, (ast.ListComp, ast.SetComp, ast.DictComp, ast.GeneratorExp, ast.Lambda)):
                return True
            child, p = p, getattr(p, '_parent', None)
        return False

    def gen(node):
        facts = set()
        st = node.stmt
        if st is None or node.kind == 'with_exit':
            return facts
        for n in own_nodes(st):
            k = is_data_sub(n)
            if k is not None and not conditional(n, st):
                facts.add(k)
            if isinstance(n, ast.Call):
                ci = callee(n)
                if ci is not None:
                    facts |= ci.mandatory
        return facts

    facts = cfg.must_facts(gen)
    info.mandatory = set(facts or ())
    # may-read keys / reference keys / openness
    for n in ast.walk(fn):
        k = is_data_sub(n)
        if k is not None:
            info.may.add(k)
        if isinstance(n, ast.Subscript) and isinstance(n.value, ast.Name) and n.value.id == data and const_key(ctx, module, n.slice) is None \
                and isinstance(n.ctx, ast.Load):
            info.open = True
        if isinstance(n, ast.Call):
            f = n.func
            if isinstance(f, ast.Attribute) and isinstance(f.value, ast.Name) and f.value.id == data:
                if f.attr in ('get', 'pop') and n.args:
                    kk = const_key(ctx, module, n.args[0])
                    if kk is not None:
                        info.may.add(kk)
                    else:
                        info.open = True
                elif f.attr in ('items', 'keys', 'values'):
                    info.open = True
            fname = dotted_name(f) or ''
            if fname.split('.')[-1] in PROCESS_FUNCS:
                for a in n.args:
                    for s in ast.walk(a):
                        kk = is_data_sub(s)
                        if kk is not None:
                            info.ref_keys.add(kk)
                # process_objects(data, dic, key='k') / process_object_with_key('k', data, dic)
                for kw in n.keywords:
                    if kw.arg == 'key':
                        kk = const_key(ctx, module, kw.value)
                        if kk:
                            info.ref_keys.add(kk)
                            info.may.add(kk)
                if fname.split('.')[-1] == 'process_object_with_key' and n.args:
                    kk = const_key(ctx, module, n.args[0])
                    if kk:
                        info.ref_keys.add(kk)
                        info.may.add(kk)
            ci = callee(n)
            if ci is not None:
                info.may |= ci.may
                info.ref_keys |= ci.ref_keys
                info.open |= ci.open
        if isinstance(n, ast.Compare) and len(n.ops) == 1 and isinstance(n.ops[0], (ast.In, ast.NotIn)) \
                and isinstance(n.comparators[0], ast.Name) and n.comparators[0].id == data:
            kk = const_key(ctx, module, n.left)
            if kk is not None:
                info.may.add(kk)
        if isinstance(n, ast.For) and isinstance(n.iter, ast.Name) and n.iter.id == data:
            info.open = True
    # local aliases: x = data['k'] ... process_object(x, dic)
    alias: Dict[str, str] = {}
    for n in ast.walk(fn):
        if isinstance(n, ast.Assign) and len(n.targets) == 1 and isinstance(n.targets[0], ast.Name):
            k = is_data_sub(n.value)
            if k is not None:
                alias[n.targets[0].id] = k
    for n in ast.walk(fn):
        if isinstance(n, ast.Call) and (dotted_name(n.func) or '').split('.')[-1] in PROCESS_FUNCS:
            for a in n.args[:1]:
                if isinstance(a, ast.Name) and a.id in alias:
                    info.ref_keys.add(alias[a.id])
    return info


def all_from_json(ctx, include_cli=False):
    """(ClassInfo, fn) for every from_json defined in the package."""
    out = []
    for ci in sorted(ctx.classes.classes.values(), key=lambda c: c.qualname):
        if not include_cli and '.cli.' in ci.qualname:
            continue
        fn = ci.methods.get('from_json')
        if fn is not None:
            out.append((ci, fn))
    return out
