"""Constructor binding: at every call `cls(...)` / `ClassName(...)` that resolves to a class of the package, the arguments bind to
the parameters of the resolved `__init__` the way the call site says they should.

Decided per call site (and, for `cls(...)` in an inherited factory, per concrete subclass that inherits the factory):
  * a positional argument that is a plain name (or `obj.name`) equal to the name of *another* parameter of the constructor than the
    one it binds to is a slot mismatch (the value lands in the wrong parameter) — a contradiction between the two spellings in the
    code, not a guess;
  * more positional arguments than the constructor takes, a keyword the constructor does not take, or a required parameter that no
    argument provides: the construction raises.
Calls with a `*splat` are decided up to the splat; `**splat` switches the missing / unknown keyword tests off.
"""
from __future__ import annotations

import ast
from typing import Iterable, List, Optional

from sa.report import where


def _norm(n: str) -> str:
    return n.strip('_')


def _arg_name(a: ast.AST) -> Optional[str]:
    if isinstance(a, ast.Name):
        return a.id
    if isinstance(a, ast.Attribute):
        return a.attr
    return None


def _enclosing_class(fn):
    p = getattr(fn, '_parent', None)
    while p is not None and not isinstance(p, ast.ClassDef):
        p = getattr(p, '_parent', None)
    return p


def _is_classmethod(fn: ast.FunctionDef) -> bool:
    return any((isinstance(d, ast.Name) and d.id == 'classmethod') for d in fn.decorator_list)


def _decide(call: ast.Call, init: ast.FunctionDef):
    """list of (kind, text) problems of binding `call` to `init`"""
    a = init.args
    params = [x.arg for x in a.posonlyargs + a.args][1:]
    n_defaults = len(a.defaults)
    required = params[:len(params) - n_defaults] if n_defaults else list(params)
    kwonly = [x.arg for x in a.kwonlyargs]
    required_kw = [x.arg for x, d in zip(a.kwonlyargs, a.kw_defaults) if d is None]
    problems = []
    bound = set()
    splat = False
    for i, arg in enumerate(call.args):
        if isinstance(arg, ast.Starred):
            splat = True
            break
        if i >= len(params):
            if a.vararg is None:
                problems.append(('too-many', f"passes {len(call.args)} positional arguments, the constructor takes {len(params)}"))
            break
        bound.add(params[i])
        nm = _arg_name(arg)
        if nm is None:
            continue
        norm_params = {_norm(p): p for p in params + kwonly}
        if _norm(nm) != _norm(params[i]) and _norm(nm) in norm_params:
            problems.append(('slot', f"positional argument {i + 1} `{ast.unparse(arg)}` binds to parameter `{params[i]}` although the constructor has a parameter "
                                     f"`{norm_params[_norm(nm)]}` (the value lands in the wrong parameter)"))
    dstar = any(k.arg is None for k in call.keywords)
    for k in call.keywords:
        if k.arg is None:
            continue
        if k.arg in bound:
            problems.append(('twice', f"parameter `{k.arg}` is given both positionally and by keyword"))
        elif k.arg not in params and k.arg not in kwonly and a.kwarg is None:
            problems.append(('unknown-keyword', f"keyword `{k.arg}` is not a parameter of the constructor"))
        bound.add(k.arg)
    if not splat and not dstar:
        missing = [p for p in required + required_kw if p not in bound]
        if missing:
            problems.append(('missing', f"required parameter(s) {missing} receive no argument"))
    return problems


def check_constructor_binding(ctx, rep, rule: str, module_prefixes: Iterable[str], floor: int = 1) -> int:
    prefixes = tuple(module_prefixes)
    n = 0
    for mname, m in sorted(ctx.prog.modules.items()):
        if not any(mname == p.rstrip('.') or mname.startswith(p) for p in prefixes):
            continue
        for fn in ast.walk(m.tree):
            if not isinstance(fn, ast.FunctionDef):
                continue
            owner = _enclosing_class(fn)
            for c in ast.walk(fn):
                if not isinstance(c, ast.Call):
                    continue
                targets: List = []
                if isinstance(c.func, ast.Name) and c.func.id == 'cls' and owner is not None and _is_classmethod(fn):
                    base = ctx.classes.find(f"{mname}.{owner.name}")
                    if base is None:
                        continue
                    cands = [base] + [s for s in ctx.classes.subclasses(base.qualname, strict=True)]
                    for s in cands:
                        r = s.resolve(fn.name)
                        if r and r[1] is fn and (s is base or not s.is_abstract()):
                            targets.append(s)
                elif isinstance(c.func, (ast.Name, ast.Attribute)):
                    try:
                        ci = ctx.classes.resolve_class_expr(m, c.func)
                    except Exception:
                        ci = None
                    if ci is not None:
                        targets.append(ci)
                for ci in targets:
                    r = ci.resolve('__init__')
                    if not r:
                        continue
                    init = r[1]
                    n += 1
                    scope = f"{owner.name}.{fn.name}" if owner is not None else fn.name
                    key = f"{mname.replace('torchtree.', '')}::{scope}::{ci.node.name}(…)#{sum(1 for x in ast.walk(fn) if isinstance(x, ast.Call) and x.lineno < c.lineno and ast.dump(x.func) == ast.dump(c.func))}"
                    problems = _decide(c, init)
                    if problems:
                        rep.bad(rule, key, where(m, c), {'constructor': f"{r[0].qualname}.__init__", 'problems': [p[0] for p in problems]},
                                f"{scope} builds {ci.node.name}: " + '; '.join(p[1] for p in problems))
                    else:
                        rep.ok(rule, key, where(m, c), {'constructor': f"{r[0].qualname}.__init__"})
    if n < floor:
        rep.incomplete(rule, '*', '', f"only {n} constructor calls resolved, expected at least {floor}")
    return n


POSITIVE = '''
class A:
    def __init__(self, id_, x, scale=1.0, weights=None):
        pass
    @classmethod
    def from_json(cls, data, dic):
        return cls(id_, x, weights, scale)
def f():
    return A(id_, x, colour=3)
def g():
    return A(id_)
def h():
    return A(id_, x, scale, weights)
'''


def self_check():
    """the classifier flags exactly the three wrong calls of the embedded example"""
    t = ast.parse(POSITIVE)
    init = t.body[0].body[0]
    res = {}
    for fn in ast.walk(t):
        if isinstance(fn, ast.FunctionDef) and fn.name != '__init__':
            for c in ast.walk(fn):
                if isinstance(c, ast.Call):
                    res[fn.name] = sorted(p[0] for p in _decide(c, init))
    if res != {'from_json': ['slot', 'slot'], 'f': ['unknown-keyword'], 'g': ['missing'], 'h': []}:
        from sa.loader import AnalysisError
        raise AnalysisError(f"constructor-binding self-check failed: {res}")


# modules whose factories build the objects the property is about (from the anchors of each property)
SCOPES = {
    'C04': ['torchtree.evolution.substitution_model.'],
    'C05': ['torchtree.evolution.site_model'],
    'C06': ['torchtree.evolution.tree_height_transform', 'torchtree.evolution.tree_model'],
    'C07': ['torchtree.distributions.transforms', 'torchtree.evolution.rate_transform', 'torchtree.evolution.branch_model'],
    'C08': ['torchtree.evolution.coalescent'],
    'C09': ['torchtree.evolution.bdsk', 'torchtree.evolution.birth_death'],
    'C14': ['torchtree.variational.', 'torchtree.distributions.joint_distribution', 'torchtree.distributions.distributions'],
    'C15': ['torchtree.inference.mcmc.'],
    'C16': ['torchtree.inference.hmc.'],
    'C20': ['torchtree.distributions.gmrf', 'torchtree.distributions.gmrf_integrated', 'torchtree.inference.mcmc.gmrf_block_updating'],
}


def run_for(ctx, rep, prop: str, floor: int):
    rule = f"{prop}.Y"
    rep.rule(rule, "every `cls(…)` / `Class(…)` call in the factories of these modules binds its arguments to the constructor parameters they are named for "
                   "(no slot mismatch, no unknown keyword, no missing required parameter), for every concrete class that inherits the factory")
    self_check()
    n = check_constructor_binding(ctx, rep, rule, SCOPES[prop], floor)
    rep.analysed[f'constructor_calls_bound'] = n
    return n


def check_json_defaults(ctx, rep, rule: str, only=None) -> int:
    """a from_json that reads an optional key with a literal default (`v = data.get('k', D)`) and hands v to the constructor parameter p must use the constructor's own default
    for p: otherwise an object built from a specification that does not mention the option behaves differently from one built directly (and from what the constructor documents)."""
    from .loader import norm_text
    from .report import where
    n = 0
    for ci in sorted(ctx.classes.classes.values(), key=lambda c: c.qualname):
        if only is not None and not only(ci):
            continue
        fj = ci.methods.get('from_json')
        init = ci.resolve('__init__')
        if fj is None or init is None or len(fj.args.args) < 2:
            continue
        data = fj.args.args[1].arg
        gets = {}
        for st in ast.walk(fj):
            if isinstance(st, ast.Assign) and len(st.targets) == 1 and isinstance(st.value, ast.Call) and isinstance(st.value.func, ast.Attribute) and st.value.func.attr == 'get' \
                    and isinstance(st.value.func.value, ast.Name) and st.value.func.value.id == data and len(st.value.args) == 2 and isinstance(st.value.args[1], ast.Constant):
                t = st.targets[0]
                if isinstance(t, ast.Name):
                    gets[t.id] = st.value
        if not gets:
            continue
        params = init[1].args.args[1:]
        defaults = init[1].args.defaults
        dmap = {}
        for p_, d_ in zip(params[len(params) - len(defaults):], defaults):
            dmap[p_.arg] = d_
        for p_, d_ in zip(init[1].args.kwonlyargs, init[1].args.kw_defaults):
            if d_ is not None:
                dmap[p_.arg] = d_
        for c in ast.walk(fj):
            if not (isinstance(c, ast.Call) and isinstance(c.func, ast.Name) and c.func.id == 'cls'):
                continue
            bound = {}
            for i, a in enumerate(c.args):
                if isinstance(a, ast.Name) and a.id in gets and i < len(params):
                    bound[params[i].arg] = a.id
            for k in c.keywords:
                if k.arg and isinstance(k.value, ast.Name) and k.value.id in gets:
                    bound[k.arg] = k.value.id
            for pname, var in sorted(bound.items()):
                if pname not in dmap or not isinstance(dmap[pname], ast.Constant):
                    continue
                n += 1
                jd, cd = gets[var].args[1].value, dmap[pname].value
                same = (jd == cd and type(jd) is type(cd)) or (jd is None and cd is None)
                rep.check(rule, f"{ci.qualname}.from_json::default-of-{pname}", same, where(ci.module, gets[var]), {'json_default': repr(jd), 'constructor_default': repr(cd)},
                          f"{ci.name}.from_json reads `{norm_text(gets[var])[:50]}` and hands it to the constructor parameter `{pname}`, whose own default is {cd!r}: a specification that does "
                          f"not mention the option builds an object configured with {jd!r} where the constructor (and its documentation) means {cd!r}")
    return n
