"""KNOWN (C09.F): the constant-rate BirthDeath density has no log(rho) term for tips sampled at the present:
with rho > 0 it differs from the single-epoch skyline density (validated against BEAST2 by the suite) by n*log(rho).
Exit 1 while the defect is present."""
import torch
from torchtree.evolution.birth_death import BirthDeath
from torchtree.evolution.bdsk import PiecewiseConstantBirthDeath
heights = torch.tensor([0.0, 0.0, 0.0, 1.0, 2.0])          # 3 contemporaneous tips, 2 internal nodes
args = (torch.tensor([2.0]), torch.tensor([1.0]), torch.tensor([0.5]))
rho, origin = torch.tensor([0.3]), torch.tensor([3.0])
const = BirthDeath(*args, rho, origin, survival=True).log_prob(heights)
sky = PiecewiseConstantBirthDeath(*args, rho=rho, origin=origin, survival=True).log_prob(heights)
print('constant', const.item(), 'skyline(1 epoch)', sky.item(), 'difference', (sky - const).item(), '3*log(rho)', 3 * rho.log().item())
ok = torch.allclose(const, sky)
print('OK' if ok else 'FAIL: constant model and single-epoch skyline disagree')
raise SystemExit(0 if ok else 1)
