from sa.selftest import Mut

TR = 'torchtree/distributions/transforms.py'
NUC = 'torchtree/evolution/substitution_model/nucleotide.py'
ABS = 'torchtree/evolution/substitution_model/abstract.py'
COAL = 'torchtree/evolution/coalescent.py'
SITE = 'torchtree/evolution/site_model.py'
TL = 'torchtree/evolution/tree_likelihood.py'
TM = 'torchtree/evolution/tree_model.py'
GMRF = 'torchtree/distributions/gmrf.py'
TH = 'torchtree/evolution/tree_height_transform.py'

CORPUS = [
    Mut('c12-jacobian-original', TR, 'CumSumExpTransform.log_abs_det_jacobian', 'return x.cumsum(-1).sum(-1)',
        'def f(xx):\n    return xx.cumsum(-1).exp()\nreturn torch.diagonal(torch.autograd.functional.jacobian(f, x), 0).log().sum()', expect=[('C12.D', 'CumSumExpTransform.log_abs_det_jacobian')]),
    Mut('c12-hky-detached-kappa', NUC, 'HKY.q', 'kappa = self.kappa', 'kappa = self.kappa.detach()', expect=[('C12.D', 'HKY.q::.detach')]),
    Mut('c12-norm-item', ABS, 'AbstractSubstitutionModel.norm', 'return -torch.sum(torch.diagonal(Q, dim1=-2, dim2=-1) * self.frequencies, -1)',
        'return -torch.sum(torch.diagonal(Q, dim1=-2, dim2=-1) * self.frequencies, -1).item()', expect=[('C12.D', 'AbstractSubstitutionModel.norm')]),
    Mut('c12-pt-no-grad', ABS, 'NonSymmetricSubstitutionModel.p_t', 'Q_unnorm = self.q()', 'with torch.no_grad():\n    Q_unnorm = self.q()', expect=[('C12.D', 'NonSymmetricSubstitutionModel.p_t::no_grad')]),
    Mut('c12-invariant-float', SITE, 'InvariantSiteModel.update_rates_probs', 'self._rates *= self._mu.tensor', 'self._rates *= float(self._mu.tensor)',
        expect=[('C12.D', 'InvariantSiteModel.update_rates_probs::float()')]),
    Mut('c12-branch-lengths-new-tensor', TM, 'TimeTreeModel', 'def _sample_shape(self) -> torch.Size:\n    return self._internal_heights.tensor.shape[:-1]',
        'def _sample_shape(self) -> torch.Size:\n    return self._internal_heights.tensor.shape[:-1]\n\ndef root_height(self):\n    return torch.tensor(self.node_heights[..., -1].tolist())',
        expect=[('C12.D', 'TimeTreeModel.root_height')]),
    Mut('c12-coalescent-data', COAL, 'ConstantCoalescent.log_prob', 'taxa_shape = node_heights.shape[:-1] + (int((node_heights.shape[-1] + 1) / 2),)',
        'node_heights = node_heights.data\ntaxa_shape = node_heights.shape[:-1] + (int((node_heights.shape[-1] + 1) / 2),)', expect=[('C12.D', 'ConstantCoalescent.log_prob::.data')]),
    Mut('c12-ratio-transform-numpy', TH, 'GeneralNodeHeightTransform._call', 'heights = x.clone()', 'heights = torch.tensor(x.detach().numpy())', expect=[('C12.D', 'GeneralNodeHeightTransform._call')]),
    Mut('c12-kernel-detach', TL, 'calculate_treelikelihood_discrete', 'mats.unsqueeze(-3)…', None),
    # benign
    Mut('c12-benign-shape-int', COAL, 'ConstantCoalescent.log_prob', 'taxa_shape = node_heights.shape[:-1] + (int((node_heights.shape[-1] + 1) / 2),)',
        'n_tips = int((node_heights.shape[-1] + 1) // 2)\ntaxa_shape = node_heights.shape[:-1] + (n_tips,)', benign=True),
    Mut('c12-benign-literal-tensor', NUC, 'HKY.q', 'kappa = self.kappa', 'kappa = self.kappa * torch.tensor(1.0)', benign=True),
    Mut('c12-benign-index-item', TH, 'GeneralNodeHeightTransform._call', 'heights = x.clone()', 'heights = x.clone()\nlast = int(x.shape[-1]) - 1', benign=True),
    Mut('c12-where-divides-by-tested-quantity', 'torchtree/evolution/coalescent.py', '', "        integral = intervals / pop_sizes[..., 1:-1]\n        idx = (diff_thetas != 0.0).nonzero(as_tuple=True)\n        integral[idx] = intervals[idx] * diff_log_thetas[idx] / diff_thetas[idx]\n",
        "        integral = torch.where(diff_thetas != 0.0, intervals * diff_log_thetas / diff_thetas, intervals / pop_sizes[..., 1:-1])\n", expect=[('C12.N', 'PiecewiseLinearCoalescentGrid.log_prob')], mode='text'),
    Mut('c12-benign-where-with-safe-denominator', 'torchtree/evolution/coalescent.py', '', "        integral = intervals / pop_sizes[..., 1:-1]\n        idx = (diff_thetas != 0.0).nonzero(as_tuple=True)\n        integral[idx] = intervals[idx] * diff_log_thetas[idx] / diff_thetas[idx]\n",
        "        safe = torch.where(diff_thetas != 0.0, diff_thetas, torch.ones_like(diff_thetas))\n        integral = torch.where(diff_thetas != 0.0, intervals * diff_log_thetas / safe, intervals / pop_sizes[..., 1:-1])\n", benign=True, mode='text'),
    Mut('c12-math-log-of-parameter', 'torchtree/evolution/coalescent.py', '', "            self.alpha * math.log(self.beta)", "            self.alpha * math.log(node_heights[..., -1])", expect=[('C12.D', 'math()')], mode='text'),
    Mut('c12-event-times-rounded', 'torchtree/evolution/bdsk.py', '', "        y = times[..., -1:] - tip_heights\n", "        y = torch.round(times[..., -1:] - tip_heights, decimals=10)\n", expect=[('C12.D', 'zero-derivative')], mode='text'),
    Mut('c12-branch-gradient-clamped-by-a-hook', 'torchtree/evolution/tree_likelihood.py', '', "        mats = self.subst_model.p_t(bls.reshape(sample_shape + (-1, 1)) * rates)\n",
        "        if bls.requires_grad:\n            bls.register_hook(lambda grad: grad.clamp(min=-1.0e6, max=1.0e6))\n        mats = self.subst_model.p_t(bls.reshape(sample_shape + (-1, 1)) * rates)\n", expect=[('C12.D', 'gradient-hook')], mode='text'),
    Mut('c12-parameter-value-copied-into-the-old-leaf', 'torchtree/core/parameter.py', 'Parameter', 'self._tensor = tensor', 'if tensor.shape == self._tensor.shape and tensor.grad_fn is None:\n    with torch.no_grad():\n        self._tensor.copy_(tensor)\nelse:\n    self._tensor = tensor', nth=1,
        expect=[('C12.S', 'Parameter.tensor.setter')]),
    Mut('c12-benign-floor-of-a-shape', 'torchtree/evolution/bdsk.py', '', "        y = times[..., -1:] - tip_heights\n", "        y = times[..., -1:] - tip_heights\n        half = math.floor(y.shape[-1] / 2)\n", benign=True, mode='text'),
]
CORPUS = [m for m in CORPUS if m.id != 'c12-kernel-detach']
CORPUS += [
    Mut('c12-exponential-coalescent-patched-with-a-float-mask', 'torchtree/evolution/coalescent.py', 'ExponentialCoalescent.log_prob', 'height_growth_exp = torch.exp(heights_sorted * self.growth)',
        'height_growth_exp = torch.exp(heights_sorted * self.growth)\ngrowth_is_zero = (self.growth == 0.0).to(self.growth.dtype)\nheight_growth_exp = height_growth_exp + growth_is_zero',
        expect=[('C12.N', 'ExponentialCoalescent.log_prob::value-patched-with-the-mask-growth_is_zero')]),
    Mut('c12-benign-integer-event-mask-as-a-float', 'torchtree/evolution/coalescent.py', 'ExponentialCoalescent.log_prob', 'height_growth_exp = torch.exp(heights_sorted * self.growth)',
        'height_growth_exp = torch.exp(heights_sorted * self.growth)\nis_coalescent = (node_mask_sorted == -1).to(height_growth_exp.dtype)\nheight_growth_exp = height_growth_exp * (is_coalescent * 0 + 1)', benign=True),
    Mut('c12-epoch-grid-from-linspace-of-the-origin', 'torchtree/evolution/bdsk.py', 'PiecewiseConstantBirthDeath.log_prob', 'dtimes = (origin / m).expand(origin.shape[:-1] + (m,))',
        'dtimes = (origin / m).expand(origin.shape[:-1] + (m,))\ngrid_check = torch.linspace(0.0, origin.reshape(()), m + 1)', expect=[('C12.D', 'PiecewiseConstantBirthDeath.log_prob::factory-scalar')]),
    Mut('c12-benign-unit-grid-scaled-by-the-origin', 'torchtree/evolution/bdsk.py', 'PiecewiseConstantBirthDeath.log_prob', 'dtimes = (origin / m).expand(origin.shape[:-1] + (m,))',
        'dtimes = (origin / m).expand(origin.shape[:-1] + (m,))\ngrid_check = torch.linspace(0.0, 1.0, m + 1) * origin', benign=True),
]
CORPUS += [
    Mut('c12-sufficient-statistics-by-weighted-bincount', 'torchtree/evolution/bdsk.py', 'PiecewiseConstantBirthDeath.log_prob', 'dtimes = (origin / m).expand(origin.shape[:-1] + (m,))',
        'dtimes = (origin / m).expand(origin.shape[:-1] + (m,))\nacc = torch.bincount(torch.zeros(m, dtype=torch.long), weights=dtimes.reshape(-1)[:m], minlength=m)',
        expect=[('C12.D', 'PiecewiseConstantBirthDeath.log_prob::no-derivative')]),
    Mut('c12-benign-event-counts-by-bincount', 'torchtree/evolution/bdsk.py', 'PiecewiseConstantBirthDeath.log_prob', 'dtimes = (origin / m).expand(origin.shape[:-1] + (m,))',
        'dtimes = (origin / m).expand(origin.shape[:-1] + (m,))\nacc = torch.bincount(torch.zeros(m, dtype=torch.long), minlength=m)', benign=True),
]
CORPUS += [
    Mut('c12-rates-left-out-when-they-equal-one', 'torchtree/evolution/tree_likelihood.py', '', "        mats = self.subst_model.p_t(bls.reshape(sample_shape + (-1, 1)) * rates)\n",
        "        bls = bls.reshape(sample_shape + (-1, 1))\n        if rates.shape[-1] > 1 or torch.any(rates != 1.0):\n            bls = bls * rates\n        mats = self.subst_model.p_t(bls)\n", mode='text',
        expect=[('C12.D', 'TreeLikelihoodModel._call::value-branch')]),
    Mut('c12-view-setter-always-outside-the-graph', 'torchtree/core/parameter.py', '', "        if self.parameter.requires_grad:\n            # a leaf tensor that requires grad cannot be modified in place\n            with torch.no_grad():\n                self.parameter.tensor[..., self.indices] = tensor\n        else:\n            self.parameter.tensor[..., self.indices] = tensor\n",
        "        with torch.no_grad():\n            self.parameter.tensor[..., self.indices] = tensor\n", mode='text', expect=[('C12.D', 'torchtree.core.parameter.ViewParameter.tensor::no_grad')]),
    Mut('c12-eigh-of-the-lower-triangle', 'torchtree/evolution/substitution_model/abstract.py', '', "        return torch.linalg.eigh(Q)\n", "        return torch.linalg.eigh(torch.tril(Q))\n", mode='text',
        expect=[('C12.D', 'eigh-of-a-triangle')]),
    Mut('c12-benign-eigh-with-the-triangle-named', 'torchtree/evolution/substitution_model/abstract.py', '', "        return torch.linalg.eigh(Q)\n", "        return torch.linalg.eigh(Q, UPLO='L')\n", mode='text', benign=True),
]
