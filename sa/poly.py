"""Rational functions over named symbols with Fraction coefficients.

A polynomial is a dict {monomial: coeff}; a monomial is a sorted tuple of (symbol, power).
A rational function is a pair (num, den) kept un-normalised; equality is decided by
cross-multiplication (exact: polynomial identity over Q).  This is plain syntactic algebra on
the expression tree — no evaluation of the analysed program and no solver.
"""
from __future__ import annotations

import ast
from fractions import Fraction
from typing import Callable, Dict, Optional, Tuple

from .loader import Unsupported

Mono = Tuple[Tuple[str, int], ...]
Poly = Dict[Mono, Fraction]


def p_const(c) -> Poly:
    c = Fraction(c)
    return {(): c} if c != 0 else {}


def p_sym(name: str) -> Poly:
    return {((name, 1),): Fraction(1)}


def p_add(a: Poly, b: Poly) -> Poly:
    out = dict(a)
    for m, c in b.items():
        v = out.get(m, 0) + c
        if v == 0:
            out.pop(m, None)
        else:
            out[m] = v
    return out


def p_neg(a: Poly) -> Poly:
    return {m: -c for m, c in a.items()}


def m_mul(a: Mono, b: Mono) -> Mono:
    d = dict(a)
    for s, p in b:
        d[s] = d.get(s, 0) + p
    return tuple(sorted((s, p) for s, p in d.items() if p != 0))


def p_mul(a: Poly, b: Poly) -> Poly:
    out: Poly = {}
    for m1, c1 in a.items():
        for m2, c2 in b.items():
            m = m_mul(m1, m2)
            v = out.get(m, 0) + c1 * c2
            if v == 0:
                out.pop(m, None)
            else:
                out[m] = v
    return out


def p_pow(a: Poly, n: int) -> Poly:
    out = p_const(1)
    for _ in range(n):
        out = p_mul(out, a)
    return out


def p_is_zero(a: Poly) -> bool:
    return not a


def p_diff(a: Poly, sym: str) -> Poly:
    out: Poly = {}
    for m, c in a.items():
        d = dict(m)
        if sym not in d:
            continue
        p = d[sym]
        d[sym] = p - 1
        m2 = tuple(sorted((s, q) for s, q in d.items() if q != 0))
        out[m2] = out.get(m2, 0) + c * p
    return {m: c for m, c in out.items() if c != 0}


def p_subst(a: Poly, sym: str, value: 'Rat') -> 'Rat':
    out = Rat(p_const(0))
    for m, c in a.items():
        term = Rat(p_const(c))
        for s, p in m:
            if s == sym:
                term = term * (value ** p)
            else:
                term = term * Rat({((s, p),): Fraction(1)})
        out = out + term
    return out


def p_symbols(a: Poly):
    return {s for m in a for s, _ in m}


def p_str(a: Poly) -> str:
    if not a:
        return '0'
    parts = []
    for m, c in sorted(a.items()):
        mono = '*'.join(s if p == 1 else f"{s}^{p}" for s, p in m)
        if not mono:
            parts.append(str(c))
        elif c == 1:
            parts.append(mono)
        elif c == -1:
            parts.append('-' + mono)
        else:
            parts.append(f"{c}*{mono}")
    return ' + '.join(parts).replace('+ -', '- ')


class Rat:
    __slots__ = ('num', 'den')

    def __init__(self, num: Poly, den: Optional[Poly] = None):
        self.num = num
        self.den = den if den is not None else p_const(1)
        if p_is_zero(self.den):
            raise ZeroDivisionError('zero denominator')

    @staticmethod
    def const(c):
        return Rat(p_const(c))

    @staticmethod
    def sym(name):
        return Rat(p_sym(name))

    def __add__(self, o):
        o = _rat(o)
        if self.den == o.den:
            return Rat(p_add(self.num, o.num), self.den)
        return Rat(p_add(p_mul(self.num, o.den), p_mul(o.num, self.den)), p_mul(self.den, o.den))

    __radd__ = __add__

    def __neg__(self):
        return Rat(p_neg(self.num), self.den)

    def __sub__(self, o):
        return self + (-_rat(o))

    def __rsub__(self, o):
        return _rat(o) - self

    def __mul__(self, o):
        o = _rat(o)
        return Rat(p_mul(self.num, o.num), p_mul(self.den, o.den))

    __rmul__ = __mul__

    def __truediv__(self, o):
        o = _rat(o)
        if p_is_zero(o.num):
            raise ZeroDivisionError('division by the zero function')
        return Rat(p_mul(self.num, o.den), p_mul(self.den, o.num))

    def __rtruediv__(self, o):
        return _rat(o) / self

    def __pow__(self, n: int):
        if n >= 0:
            return Rat(p_pow(self.num, n), p_pow(self.den, n))
        return Rat(p_pow(self.den, -n), p_pow(self.num, -n))

    def equals(self, o) -> bool:
        o = _rat(o)
        return p_is_zero(p_add(p_mul(self.num, o.den), p_neg(p_mul(o.num, self.den))))

    def is_zero(self) -> bool:
        return p_is_zero(self.num)

    def diff(self, sym: str) -> 'Rat':
        # (n/d)' = (n' d - n d') / d^2
        n1 = p_add(p_mul(p_diff(self.num, sym), self.den), p_neg(p_mul(self.num, p_diff(self.den, sym))))
        return Rat(n1, p_mul(self.den, self.den))

    def subst(self, sym: str, value) -> 'Rat':
        value = _rat(value)
        return p_subst(self.num, sym, value) / p_subst(self.den, sym, value)

    def symbols(self):
        return p_symbols(self.num) | p_symbols(self.den)

    def sign_on_positive(self) -> Optional[int]:
        """+1 / -1 / 0 when the sign is the same for all strictly positive values of the
        symbols (sufficient test: all numerator coefficients of one sign, all denominator
        coefficients of one sign); None when it cannot be told this way."""
        if p_is_zero(self.num):
            return 0

        def sgn(p):
            pos = all(c > 0 for c in p.values())
            neg = all(c < 0 for c in p.values())
            return 1 if pos else (-1 if neg else None)

        a, b = sgn(self.num), sgn(self.den)
        if a is None or b is None:
            return None
        return a * b

    def __repr__(self):
        if self.den == p_const(1):
            return p_str(self.num)
        return f"({p_str(self.num)})/({p_str(self.den)})"


def _rat(x) -> Rat:
    if isinstance(x, Rat):
        return x
    return Rat.const(x)


# ---------------------------------------------------------------------------
# expression AST -> Rat
# ---------------------------------------------------------------------------

class ToRat:
    """Translate an expression into a rational function.  `atom(node)` maps leaves and opaque
    sub-expressions to symbols (return a Rat or None to refuse); `env` maps local names."""

    def __init__(self, atom: Callable[[ast.AST], Optional[Rat]], env: Optional[Dict[str, Rat]] = None,
                 funcs: Optional[Dict[str, Callable]] = None, pre: Optional[Callable[[ast.AST], Optional[Rat]]] = None):
        self.atom = atom
        self.pre = pre  # consulted before the structural rules (lets a caller keep a sub-expression as one atom)
        self.env = env if env is not None else {}
        self.funcs = funcs if funcs is not None else {}

    def __call__(self, e: ast.AST) -> Rat:
        if self.pre is not None:
            r0 = self.pre(e)
            if r0 is not None:
                return r0
        if isinstance(e, ast.Constant) and isinstance(e.value, (int, float)) and not isinstance(e.value, bool):
            return Rat.const(Fraction(str(e.value)))
        if isinstance(e, ast.Name) and e.id in self.env:
            return self.env[e.id]
        if isinstance(e, ast.UnaryOp) and isinstance(e.op, ast.USub):
            return -self(e.operand)
        if isinstance(e, ast.UnaryOp) and isinstance(e.op, ast.UAdd):
            return self(e.operand)
        if isinstance(e, ast.BinOp):
            if isinstance(e.op, ast.Add):
                return self(e.left) + self(e.right)
            if isinstance(e.op, ast.Sub):
                return self(e.left) - self(e.right)
            if isinstance(e.op, ast.Mult):
                return self(e.left) * self(e.right)
            if isinstance(e.op, ast.Div):
                return self(e.left) / self(e.right)
            if isinstance(e.op, ast.Pow) and isinstance(e.right, ast.Constant) and isinstance(e.right.value, (int, float)) \
                    and float(e.right.value) == int(e.right.value):
                return self(e.left) ** int(e.right.value)
        if isinstance(e, ast.Call):
            from .loader import dotted_name
            dn = dotted_name(e.func) or (e.func.attr if isinstance(e.func, ast.Attribute) else '')
            last = dn.split('.')[-1]
            if last in self.funcs:
                r = self.funcs[last](self, e)
                if r is not None:
                    return r
            if last == 'pow' and len(e.args) == 2 and isinstance(e.args[1], ast.Constant) and float(e.args[1].value) == int(e.args[1].value):
                return self(e.args[0]) ** int(e.args[1].value)
        r = self.atom(e)
        if r is None:
            raise Unsupported(e, f"expression {ast.unparse(e)[:60]} outside the polynomial vocabulary")
        return r
