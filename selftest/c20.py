from sa.selftest import Mut

GM = 'torchtree/distributions/gmrf.py'
GI = 'torchtree/distributions/gmrf_integrated.py'
CO = 'torchtree/evolution/coalescent.py'

def T(id, file, old, new, expect=None, benign=False):
    return Mut(id, file, '', old, new, expect=expect, benign=benign, mode='text')

CORPUS = [
    T('c20-offdiag-sign', GM, "        ] = -precision.expand(self.field.shape[:-1] + (dim - 1,))", "        ] = precision.expand(self.field.shape[:-1] + (dim - 1,))",
      expect=[('C20.Q', 'GMRF.precision_matrix::dim=3::quadratic-form')]),
    T('c20-inner-diagonal', GM, "        precision_matrix[..., range(1, dim - 1), range(1, dim - 1)] = 2.0 * precision", "        precision_matrix[..., range(1, dim - 1), range(1, dim - 1)] = precision",
      expect=[('C20.Q', 'GMRF.precision_matrix::dim=4::quadratic-form')]),
    T('c20-corner', GM, "            ..., (dim - 1), (dim - 1)\n        ] = precision.squeeze(-1)", "            ..., (dim - 1), (dim - 1)\n        ] = 2.0 * precision.squeeze(-1)",
      expect=[('C20.Q', 'GMRF.precision_matrix::dim=3::rows-sum')]),
    T('c20-inner-range', GM, "        precision_matrix[..., range(1, dim - 1), range(1, dim - 1)] = 2.0 * precision", "        precision_matrix[..., range(1, dim), range(1, dim)] = 2.0 * precision",
      expect=[]),
    T('c20-density-dim', GM, "        dim = self.field.shape[-1] - 1.0  # field dim", "        dim = self.field.shape[-1]  # field dim", expect=[('C20.Q', 'GMRF._call::gaussian-log-density-terms')]),
    T('c20-density-half', GM, "            - diff_square.sum(-1, keepdim=True) * precision / 2.0", "            - diff_square.sum(-1, keepdim=True) * precision", expect=[('C20.Q', 'GMRF._call::gaussian-log-density-terms')]),
    T('c20-integrated-clone-drift', GI, "            diff_square /= (durations[..., :-1] + durations[..., 1:]) / 2.0", "            diff_square /= durations[..., 1:]",
      expect=[('C20.S', 'difference-weighting')]),
    T('c20-integrated-constant', GI, "            + math.lgamma(self._shape + self._dim / 2.0)", "            + math.lgamma(self._shape + self._dim)", expect=[('C20.S', 'GMRFGammaIntegrated::constant-term')]),
    T('c20-integrated-exponent', GI, "            - (self._shape + self._dim / 2.0)\n", "            - (self._shape + self._dim)\n", expect=[('C20.S', 'GMRFGammaIntegrated._call::closed-form')]),
    T('c20-cci-count', CO, "        internal_count = int((node_heights.shape[-1] + 1) / 2) - 1", "        internal_count = int((node_heights.shape[-1] + 1) / 2)", expect=[('C20.S', 'ConstantCoalescentIntegrated.log_prob::closed-form')]),
    T('c20-cci-lgamma', CO, "            + math.lgamma(self.alpha + internal_count)", "            + math.lgamma(internal_count)", expect=[('C20.S', 'ConstantCoalescentIntegrated.log_prob::closed-form')]),
    T('c20-grid-split-mark', CO, "            lchoose2 * durations, torch.where(node_mask_sorted == 0)[0]\n        )\n        sufficient_statistics = torch.tensor(list(map(torch.sum, groups)))",
      "            lchoose2 * durations, torch.where(node_mask_sorted == -1)[0]\n        )\n        sufficient_statistics = torch.tensor(list(map(torch.sum, groups)))", expect=[('C20.G', 'PiecewiseConstantCoalescentGrid.sufficient_statistics::split-at-the-lookup-mark')]),
    T('c20-skyride-keeps-all-groups', CO, "            sufficient_statistics = torch.tensor(list(map(torch.sum, groups[:-1])))", "            sufficient_statistics = torch.tensor(list(map(torch.sum, groups)))",
      expect=[('C20.G', 'PiecewiseConstantCoalescent.sufficient_statistics::as-many-groups-as-thetas')]),
    T('c20-benign-matrix-order', GM, "        precision_matrix[..., range(1, dim - 1), range(1, dim - 1)] = 2.0 * precision", "        precision_matrix[..., range(1, dim - 1), range(1, dim - 1)] = precision * 2.0", benign=True),
    Mut('c20-benign-arange-diagonal', 'torchtree/distributions/gmrf.py', '', "        precision_matrix[..., range(1, dim - 1), range(1, dim - 1)] = 2.0 * precision\n",
        "        inner = torch.arange(1, dim - 1)\n        precision_matrix[..., inner, inner] = 2.0 * precision\n", benign=True, mode='text'),
    Mut('c20-slice-fills-block', 'torchtree/distributions/gmrf.py', '', "        precision_matrix[..., range(1, dim - 1), range(1, dim - 1)] = 2.0 * precision\n",
        "        precision_matrix[..., 1:-1, 1:-1] = 2.0 * precision.unsqueeze(-1)\n", expect=[('C20.Q', 'GMRF.precision_matrix::dim=5::quadratic-form')], mode='text'),
    T('c20-constructor-slots-swapped', GM, "        tree_model: TimeTreeModel = None,\n        weights: torch.Tensor = None,\n        rescale: bool = True,\n", "        tree_model: TimeTreeModel = None,\n        rescale: bool = True,\n        weights: torch.Tensor = None,\n",
      expect=[('C20.Y', 'GMRF.from_json::GMRF')]),
    T('c20-factory-unknown-keyword', GM, "        return cls(id_, field, precision, tree_model, weights, rescale)", "        return cls(id_, field, precision, tree_model, weights, rescaled=rescale)", expect=[('C20.Y', 'GMRF.from_json::GMRF')]),
    T('c20-benign-factory-keywords', GM, "        return cls(id_, field, precision, tree_model, weights, rescale)", "        return cls(id_, field, precision, rescale=rescale, weights=weights, tree_model=tree_model)", benign=True),
    T('c20-skyride-split-points-from-first-sample', CO, "                    torch.where(node_mask_sorted[i] == -1)[0],", "                    torch.where(node_mask_sorted[0] == -1)[0],",
      expect=[('C20.G', 'PiecewiseConstantCoalescent.sufficient_statistics::split-points-from-the-rows-they-split')]),
    T('c20-grid-counts-split-on-reshaped-mask', CO, "            node_mask_sorted == -1, torch.where(node_mask_sorted == 0)[0]\n", "            node_mask_sorted == -1, torch.where(node_mask_sorted.flip(-1) == 0)[0]\n",
      expect=[('C20.G', 'PiecewiseConstantCoalescentGrid.sufficient_statistics::split-points-from-the-rows-they-split')]),
    T('c20-benign-mask-alias', CO, "                    torch.where(node_mask_sorted[i] == -1)[0],", "                    torch.where((node_mask_sorted[i]) == -1)[0],", benign=True),
]
for m in CORPUS:
    if m.id == 'c20-inner-range':
        m.benign = True  # the corner store that follows overwrites the extra entry: behaviour unchanged
CORPUS += [
    Mut('c20-integrated-coalescent-sorted-with-the-first-sample', 'torchtree/evolution/coalescent.py', 'ConstantCoalescentIntegrated.log_prob', 'indices = torch.argsort(node_heights, descending=False)',
        'indices = torch.argsort(node_heights.reshape(-1, node_heights.shape[-1])[0], descending=False)', expect=[('C20.O', 'ConstantCoalescentIntegrated.log_prob')],
        more=[dict(scope='ConstantCoalescentIntegrated.log_prob', old='heights_sorted = torch.gather(node_heights, -1, indices)', new='heights_sorted = node_heights[..., indices]'),
              dict(scope='ConstantCoalescentIntegrated.log_prob', old='node_mask_sorted = torch.gather(node_mask, -1, indices)', new='node_mask_sorted = node_mask[..., indices]')]),
    Mut('c20-benign-integrated-coalescent-sort-returns-both', 'torchtree/evolution/coalescent.py', 'ConstantCoalescentIntegrated.log_prob', 'indices = torch.argsort(node_heights, descending=False)',
        'heights_sorted, indices = torch.sort(node_heights, descending=False)', benign=True,
        more=[dict(scope='ConstantCoalescentIntegrated.log_prob', old='heights_sorted = torch.gather(node_heights, -1, indices)', new='pass')]),
]
CORPUS += [
    Mut('c20-current-precision-matrix-read-after-the-proposal-is-stored', 'torchtree/inference/mcmc/gmrf_block_updating.py', 'GMRFPiecewiseCoalescentBlockUpdatingOperator._step', 'precision_matrix = self.gmrf.precision_matrix()', 'pass',
        expect=[('C20.H', 'matrix-of-the-current-state-is-read-before-the-precision-is-replaced')],
        more=[dict(scope='GMRFPiecewiseCoalescentBlockUpdatingOperator._step', old='backwardQW = precision_matrix.clone()', new='precision_matrix = self.gmrf.precision_matrix()\nbackwardQW = precision_matrix.clone()')]),
]
CORPUS += [
    Mut('c20-benign-event-count-by-floor-division', CO, '', "        internal_count = int((node_heights.shape[-1] + 1) / 2) - 1\n", "        internal_count = node_heights.shape[-1] // 2\n", mode='text', benign=True),
    Mut('c20-event-count-is-the-taxon-count', CO, '', "        internal_count = int((node_heights.shape[-1] + 1) / 2) - 1\n", "        internal_count = (node_heights.shape[-1] + 1) // 2\n", mode='text',
        expect=[('C20.S', 'ConstantCoalescentIntegrated.log_prob::closed-form')]),
    Mut('c20-benign-field-dimension-through-a-local', GM, '', "        dim = self.field.shape[-1] - 1.0  # field dim\n", "        size = self.field.shape[-1]\n        dim = size - 1\n", mode='text', benign=True),
]
CORPUS += [
    Mut('c20-hyper-parameters-become-default-precision-tensors', CO, '', "        super().__init__(validate_args=validate_args)\n        self.alpha = alpha\n        self.beta = beta\n",
        "        super().__init__(validate_args=validate_args)\n        self.alpha = torch.as_tensor(alpha)\n        self.beta = torch.as_tensor(beta)\n", mode='text',
        more=[dict(scope='', old="            self.alpha * math.log(self.beta)\n", new="            self.alpha * torch.log(self.beta)\n", mode='text')],
        expect=[('C20.S', 'evolution.coalescent::ConstantCoalescentIntegrated.__init__::self.alpha')]),
]
CORPUS += [
    Mut('c20-precision-matrix-in-a-reused-buffer', GM, '', "        return precision_matrix\n", "        if getattr(self, '_pm', None) is None or self._pm.shape != precision_matrix.shape:\n            self._pm = precision_matrix\n        out = self._pm\n        out[...] = precision_matrix\n        return out\n",
        mode='text', expect=[('C20.Q', 'published::distributions.gmrf::GMRF.precision_matrix::out::returned-values-are-not-overwritten-later')]),
]
