"""C06.C — initialize_dates_from_taxa treats sampling dates that are all <= 0 with the most recent one exactly 0 (e.g. -12.5, -3.25, -1, 0: "years before the last
sample") as if every tip were sampled at the same time (its guard `max_date != 0` was meant for all-zero dates).  TimeTreeModel.update_leaf_heights gets the same dates
right (height = -date).  With keep_branch_lengths the internal heights are then computed from tips at height 0 while the model's tips sit at 12.5, 3.25, 1, 0:
the tree handed to the model has nodes below their own descendants (negative branch lengths / ratios outside [0, 1]).

Run: PYTHONPATH=/repo /venv/bin/python findings/c06_dates_nonpositive_with_most_recent_zero.py   (exit 1 = defect present)"""
import sys
import torch
from torchtree.evolution.tree_model import ReparameterizedTimeTreeModel

dates = {'A': -12.5, 'B': -3.25, 'C': 0.0, 'D': -1.0}
newick = '((A:1.0,B:10.25):20.0,(C:5.0,D:4.0):29.5);'      # consistent with the dates: heights A=12.5 B=3.25 C=0 D=1, (A,B)=13.5, (C,D)=5, root 33.5... (A side) / 34.5
data = ReparameterizedTimeTreeModel.json_factory('tree', newick, dates, [0.5, 0.5], [40.0], keep_branch_lengths=True)
dic = {}
tree = ReparameterizedTimeTreeModel.from_json(data, dic)
print('sampling times (tips)   :', tree.sampling_times.tolist())
print('node heights            :', [round(float(x), 3) for x in tree.node_heights])
bl = tree.branch_lengths()
print('branch lengths          :', [round(float(x), 3) for x in bl])
ratios = dic['ratios'].tensor if 'ratios' in dic else None
print('ratios                  :', None if ratios is None else [round(float(x), 3) for x in ratios])
bad = bool((bl < 0).any()) or (ratios is not None and bool(((ratios < 0) | (ratios > 1)).any()))
# the heights of the written tree: (A,B) must be 13.5
ab = float(tree.node_heights[4])
print('height of (A,B)         :', ab, '(13.5 in the tree as written)')
if bad or abs(ab - 13.5) > 1e-4:
    print('DEFECT: the initial heights do not describe the tree that was written down')
    sys.exit(1)
print('OK')
